#!/usr/bin/env python3
"""Evaluate a seeded property-breaking change (patch.diff + demo.py, written by an independent
sub-agent that saw only the property text) against the checks.

  tools/seeded.py eval <dir> [--props C01,C05] [--tier quick|thorough]   evaluate <dir>/patch.diff
  tools/seeded.py keep <dir> <id>                                        copy into /verif/seeded/<id>/
  tools/seeded.py all [--tier quick]                                      re-run every kept change

Everything runs on a scratch copy of /repo (VERIF_REPO); /repo itself is never modified here.
"""
import json
import os
import re
import shutil
import subprocess
import sys
import tempfile

ROOT = os.path.dirname(os.path.dirname(os.path.abspath(__file__)))


def sh(cmd, **kw):
    return subprocess.run(cmd, capture_output=True, text=True, **kw)


def make_copy(patch):
    d = tempfile.mkdtemp(prefix="vf-seed-")
    dst = os.path.join(d, "repo")
    shutil.copytree("/repo", dst, ignore=shutil.ignore_patterns(".git", "__pycache__", ".pytest_cache", ".benchmarks"))
    r = sh(["patch", "-p1", "--no-backup-if-mismatch", "-i", os.path.abspath(patch)], cwd=dst)
    if r.returncode != 0:
        shutil.rmtree(d, ignore_errors=True)
        raise SystemExit("patch does not apply: " + r.stdout + r.stderr)
    return d, dst


def tests(dst):
    r = sh(["/venv/bin/python", "-B", "-m", "pytest", "-q", "-p", "no:cacheprovider", "--continue-on-collection-errors"], cwd=dst,
           env=dict(os.environ, PYTHONDONTWRITEBYTECODE="1", PYTHONPATH=os.path.join(dst, "src")))
    tail = (r.stdout.strip().splitlines() or [""])[-1]
    return tail


def demo(demo_py, checkout):
    r = sh(["/venv/bin/python", "-B", os.path.abspath(demo_py), checkout], cwd=tempfile.gettempdir(), timeout=600,
           env=dict(os.environ, PYTHONDONTWRITEBYTECODE="1"))
    return r.returncode, (r.stdout + r.stderr)[-400:]


def run_check(prop, tier, dst):
    env = dict(os.environ, VERIF_REPO=dst, VERIF_NO_EVIDENCE="1")
    r = sh([os.path.join(ROOT, "check"), prop, tier], env=env)
    mech = [l.strip()[len("mechanism:"):].strip() for l in r.stdout.splitlines() if l.strip().startswith("mechanism:")]
    return r.returncode, mech, r.stdout.strip().splitlines()[-1] if r.stdout.strip() else ""


def evaluate(d, props=None, tier="quick", quiet=False):
    patch, demo_py = os.path.join(d, "patch.diff"), os.path.join(d, "demo.py")
    meta = {}
    if os.path.exists(os.path.join(d, "meta.json")):
        meta = json.load(open(os.path.join(d, "meta.json")))
    if props is None:
        props = meta.get("checks_to_run") or [meta.get("property") or re.search(r"C\d\d", os.path.basename(d.rstrip("/"))).group(0)]
    tmp, dst = make_copy(patch)
    res = {"dir": d, "props": props}
    try:
        res["tests"] = tests(dst)
        if os.path.exists(demo_py):
            res["demo_unmodified"] = demo(demo_py, "/repo")[0]
            rc, out = demo(demo_py, dst)
            res["demo_modified"] = rc
            res["demo_output"] = out
        res["checks"] = {}
        for p in props:
            rc, mech, last = run_check(p, tier, dst)
            res["checks"][p] = {"tier": tier, "rc": rc, "mechanisms": mech[:4], "summary": last}
    finally:
        shutil.rmtree(tmp, ignore_errors=True)
    if not quiet:
        print(json.dumps(res, indent=1))
    return res


def main():
    a = sys.argv[1:]
    tier = a[a.index("--tier") + 1] if "--tier" in a else "quick"
    props = a[a.index("--props") + 1].split(",") if "--props" in a else None
    if a[0] == "eval":
        evaluate(a[1], props, tier)
    elif a[0] == "keep":
        src, sid = a[1], a[2]
        dst = os.path.join(ROOT, "seeded", sid)
        os.makedirs(dst, exist_ok=True)
        for f in ("patch.diff", "demo.py", "NOTES.md"):
            if os.path.exists(os.path.join(src, f)):
                shutil.copy(os.path.join(src, f), dst)
        print("kept in", dst)
    elif a[0] == "neutral":
        # behaviour-preserving refactorings written by independent sub-agents: every check must stay silent
        base = os.path.join(ROOT, "seeded", "neutral")
        allp = props or ["C%02d" % i for i in range(1, 21)]
        bad = 0
        only = a[a.index("--only") + 1] if "--only" in a else ""
        for sid in sorted(os.listdir(base)):
            if only not in sid:
                continue
            d = os.path.join(base, sid)
            r = evaluate(d, allp, tier, quiet=True)
            alarms = {p: (c["rc"], c["mechanisms"][:2]) for p, c in r["checks"].items() if c["rc"] != 0}
            print("%-14s tests[%s] alarms: %s" % (sid, r["tests"], alarms or "none"), flush=True)
            bad += 1 if alarms else 0
        return 1 if bad else 0
    elif a[0] == "all":
        base = os.path.join(ROOT, "seeded")
        bad = 0
        import re

        only = re.compile(a[a.index("--only") + 1]) if "--only" in a else None  # e.g. --only '^C0' to split the work
        for sid in sorted(os.listdir(base)):
            d = os.path.join(base, sid)
            if sid == "neutral" or not os.path.exists(os.path.join(d, "patch.diff")):
                continue
            if only is not None and not only.search(sid):
                continue
            r = evaluate(d, props, tier, quiet=True)
            caught = [p for p, c in r["checks"].items() if c["rc"] == 1]
            print("%-28s tests[%s] demo %s/%s  caught by %s  %s" % (sid, r["tests"], r.get("demo_unmodified"), r.get("demo_modified"), caught or "**NONE**",
                                                                    {p: c["mechanisms"][:2] for p, c in r["checks"].items()}), flush=True)
            bad += 0 if caught else 1
        return 1 if bad else 0


if __name__ == "__main__":
    sys.exit(main())
