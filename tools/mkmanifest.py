#!/usr/bin/env python3
"""Regenerates MANIFEST.json from the table below (kept in one place so it is always valid)."""
import json
import os

ROOT = os.path.dirname(os.path.dirname(os.path.abspath(__file__)))
BASE = "cd /repo && /venv/bin/python -m pytest -ra -q -p no:cacheprovider --timeout=900 --continue-on-collection-errors"

CHECKS = {
    "C04": ("exploration", "5.C04", "write-history replayed as read script; cp1252 image oracle (runtime monitor on real EoWriter/EoReader); string-length sweep; outputs taken half-way and twice; thread stress with private writers/readers; -O/-OO/-W error/-bb interpreters",
            "Seeded-random write histories (all add_* kinds, both sanitisation modes) read back through the real reader; every read compared with the written value's cp1252 image and exact consumption checked. Held on the histories observed, not a proof.",
            "cp1252 image table built from the codec's data table; histories limited to the format's own exclusions."),
    "C05": ("exploration", "5.C05", "lock-step reference model + class invariants (icontract) + guarded buffer on the real EoReader",
            "Bounded-exhaustive DFS (all data over {00,01,FE,FF} up to the bound x all op sequences up to the depth bound, incl. slices of slices) plus random scripts; value, exception class, position, remaining and mode compared with an independent model after every operation.",
            "Reference reader model (break = first 0xFF at or after the current chunk's start) is the documented model; non-negative lengths."),
    "C06": ("exploration", "5.C06", "writer event log vs reader event log (offset / non-interference monitor); mistyped reads repeated on the chunk alone; scribbled return values; other writers in between; -O/-OO/-W error/-bb interpreters",
            "Random chunk lists and per-chunk under-/over-read plans; the writer's recorded chunk offsets are compared with the reader's position after each next_chunk, prefix reads with written values, surplus reads with 0/empty; every field write scanned for 0xFF.",
            "Fields are EO integers and non-padded strings with sanitisation on."),
    "C07": ("exploration", "5.C07", "differential codec + contracts (icontract) on real encode_number/decode_number; exhaustive sub-ranges; polluted histories; thread stress incl. cold start and sys.monitoring yield injection; -O/-OO interpreters",
            "Exhaustive below 253^2 (quick) / 253^3 (thorough), stratified over every (d3,d2) digit pair and threshold windows in the 4-byte range, decode exhaustive to 2 (quick) / 3 (thorough) bytes; round-trip, wire-safety, prefix, injectivity and positional-formula monitors.",
            "Independent divmod reference cross-checked against the repository's 24 pinned vectors."),
    "C08": ("exploration", "5.C08", "differential + algebraic monitors on real encode_string/decode_string; exhaustive 2x2x256 table; padded run shapes; live buffer exports; thread stress with yield injection; -O/-OO interpreters",
            "Complete (byte x index parity x length parity) table, all strings up to the bound over a 12-symbol boundary alphabet, random long strings; self-inverse (except 0x7E), length, reversal, range and 0x00/0xFF preservation checked per case.",
            "Reference substitution table cross-checked against the repository's six pinned vectors."),
    "C09": ("exploration", "5.C09", "per-call snapshot monitor (incl. exception path) against reference writer; integers up to 10^4000; -O/-OO/-W error/-bb interpreters",
            "Random writer histories mixing valid and invalid calls on non-empty writers plus a full grid of string-method x length-relation x padded x mode; atomic rejection, declared append size, exact image / sanitisation checked on every call.",
            "Integers >= 0; one byte per character."),
    "C10": ("exploration", "5.C10", "inverse / permutation / multiset monitors on the real encryption primitives; exhaustive byte pairs, run-length sweeps; live buffer exports; thread stress with yield injection; -O/-OO interpreters",
            "Every length up to the bound with position-labelled data (permutation recovered and compared with a list-based reference, data-independence checked), all 256 byte values for flip_msb, all multiple/non-multiple layouts up to the pattern bound, random pipelines undone by inverses.",
            "List-based reference permutation / run reversal cross-checked on the documented examples."),
    "C11": ("exploration", "5.C11", "exhaustive differential run against a UBSan-instrumented C oracle (clang -fsanitize=undefined,integer); repeated / keyword / int-like calls, lowered decimal context, thread stress incl. cold start with sys.monitoring yield injection, -O/-OO interpreters",
            "All 16,194,277 challenges of the three-byte field in both tiers: real hash == client arithmetic (C oracle under UBSan, cross-checked by a Python truncating-remainder oracle); range clause checked for challenges <= 11,092,110.",
            "The client evaluates the published formula with 32-bit int and truncating remainder."),
    "C12": ("exploration", "5.C12", "injected enumerating random source (choice-tree odometer, first 8 draws of a call) + range/reconstruction monitors; every draw script dealt twice, earlier starts re-read after later ones; a source stuck on one answer; cross-kind reconstruction; -O/-OO/-W error/-bb interpreters",
            "Every outcome of every draw of the three generate() functions is produced once (57,751 + 442,764 + 240 outcomes observed); ranges, field fit and from-values reconstruction checked on each.",
            "generate() draws through the random module's functions; otherwise the check samples and reports it."),
    "C13": ("exploration", "5.C13", "lock-step counter model + twin-peer and snapshot-peer (deepcopy / pickle) comparison on the real PacketSequencer; observations (repr/str/vars) between operations; -O/-OO/-W error/-bb interpreters",
            "All histories over {next, set(a), set(b)} up to the depth bound after several wrap-around prefixes (DFS with copies), random histories up to 300 ops with every SequenceStart kind; each returned value compared with start+n mod 10 and a lazily driven twin.",
            "copy.copy of a sequencer is independent (DFS only)."),
    "C01": ("exploration", "5.C01", "round-trip through the real generated code behind lock-step writer/reader proxies; AST-driven deep equality; reference round-trip domain filter",
            "Corpus + SpecGen trees; every wire-unambiguous class x in-domain values: real serialize (fresh real writer) then real deserialize (fresh real reader) must return a field-by-field equal object, consume exactly the bytes written and report byte_size = that count, at every nesting level.",
            "Domain = C01's quantifier as implemented in vf/gen/wu.py plus the reference round-trip filter; the reference interpreter is trusted as the semantics."),
    "C02": ("exploration", "5.C02", "byte-for-byte differential serialization against an independent reference interpreter of the XML + metamorphic explicit-defaults twin",
            "Corpus + SpecGen trees (certified by an independent grammar model) x ValueGen objects incl. unencodable/0xFF characters, unrecognised ordinals, optional holes, both entry modes: real bytes == reference bytes, exceptions only where the reference predicts invalidity, family()/action(), Packet.write, and the twin spec with every boolean default spelled out gives identical bytes.",
            "Reference interpreter (vf/ref/interp.py) written from the format rules, sharing no code with the generator; non-degenerate specs as defined in DESIGN 4.4."),
    "C03": ("exploration", "5.C03", "differential deserialization of hostile bytes through a lock-step reader proxy (real EoReader + model, guarded buffer, logical fuel)",
            "Every prefix / 00-FE-FF-biased substitution / insertion / junk suffix / random string derived from valid serializations of every class, both entry modes: result object, byte_size, final position and exception class compared with the reference; fuel exhaustion = non-termination.",
            "Reference interpreter + reference reader are the reading rules; hostile lengths beyond the oracle budget are skipped and counted."),
    "C15": ("fault_enumeration", "5.C15", "frame monitor on every generated serialize/deserialize call + enumerated fault points (failing reader/writer proxies, sys.monitoring LINE failpoints, invalid objects)",
            "For each clean run every reader/writer operation index and every line event inside generated methods is used as a fault point (sampled above a cap); entry mode == exit mode is checked on every frame at every nesting level, returning or raising, for both entry modes.",
            "Faults are exceptions from reader/writer operations, validation or statement boundaries of generated methods; exceptions thrown into a finally clause's restoring statement are out of scope."),
    "C16": ("exploration", "5.C16", "one-violation object mutants (incl. namesake case data, astronomical integers) checked by the reference validity rules; monitor on the exception class of real serialize; generator instances that read an earlier / a broken revision first; -O/-OO/-W error/-bb interpreters",
            "Every catalogued violation (None for required, wrong fixed/padded/length-bounded sizes, integers / ordinals / elements at or above the limit, wrong-kind case data) applied at eligible fields at every nesting depth of generated values; real serialize must raise SerializationError or ValueError.",
            "Invalidity is judged by the reference interpreter from the declaration."),
    "C19": ("exploration", "5.C19", "setattr/delattr, aliasing (five argument forms), mutable-getter and double-serialization monitors on real generated instances (constructed and deserialized), incl. reused / sanitising / refusing writers and earlier instances re-checked",
            "Every public field and byte_size of every instance reached (nested structs and case data included) is assigned and deleted (must raise AttributeError); arrays must be tuples; caller-side mutation of constructor lists must not show; serialization is repeatable.",
            "Type-conforming constructor arguments."),
    "C14": ("exploration", "5.C14", "construction histories with membership snapshots (names, ordinals, member values) on real enum classes (hand-written incl. own __init__/_missing_/metaclass + generated), inside exception handlers, with warnings as errors, two interpreters, -O/-OO/-W error/-bb",
            "Hand-written declarations (dense, sparse, zero-less, None member, negative/huge ordinals) and every enum generated from corpus + SpecGen trees x integers -5..N, 253^k+-1, 2^31, 2^63, 2^70: identity of declared members, value/hash/name/int of unrecognised ones, members unchanged after shuffled construction histories; hand-written part repeated under CPython 3.11.",
            "Only CPython 3.12 and 3.11 exist in the sandbox."),
    "C17": ("exploration", "5.C17", "one-rule spec mutants at every placement, certified by an independent grammar model; monitor = generator raises vs returns",
            "Valid trees (corpus + SpecGen) x the catalogue of single rule-violating edits applied at random eligible sites per (operator, placement class: top level / chunked / switch case / case in chunked / file); the real generator must raise for every mutant the grammar model confirms.",
            "Grammar model vf/ref/grammar.py states the catalogue's rules."),
    "C18": ("exploration", "5.C18", "injected environment: hash-seed sweep, os.walk shim, audit hook, repeated / failed / edited-in-between / clean-in-between runs, pre-populated and mangled outputs, root spellings incl. symlinks, XML encodings and cosmetics, protocol.py CLI, fresh-interpreter import probe",
            "Every certified-valid tree is generated in fresh interpreters under >= 11 configurations; outputs must be byte-identical, the audit hook must see only writes under the output root (none twice), and a fresh interpreter must import the package and find every declared type as a class in its module, its documented subpackage and the top level.",
            "Directory enumeration order is explored through an os.walk shim; validity of trees = grammar model."),
    "C20": ("exploration", "5.C20", "fresh interpreter per first-import choice; attribute-walk and object-identity monitors against sys.modules and defining modules",
            "For each tree (incl. type names that become awkward module names) every static module/package and sampled generated modules is imported first, then eolib: every dotted path must be reachable by attribute access and be sys.modules[path]; every public name of hand-written modules and every generated class must be one object in its module, home subpackage and the top level.",
            "Definition of 'public names a subpackage defines' as stated in DESIGN 5/C20."),
}
PENDING = ["C01", "C02", "C03", "C14", "C15", "C16", "C17", "C18", "C19", "C20"]


def main():
    checks = []
    for pid in sorted(CHECKS):
        level, ref, tech, text, note = CHECKS[pid]
        checks.append({
            "property_id": pid,
            "quick_cmd": "./check %s quick" % pid,
            "thorough_cmd": "./check %s thorough" % pid,
            "evidence_file": "evidence/%s.json" % pid,
            "replay_cmd_template": "./check %s --replay {path}" % pid,
            "engine": "vf",
            "level_claimed": {"category": level, "text": text, "design_ref": "DESIGN.md section " + ref},
            "level_note": note,
            "technique": tech,
        })
    man = {
        "version": 1,
        "setup_cmd": "./check --setup",
        "hooks": {
            "guard": "EOLIB_VERIF",
            "enable": "no source hooks are needed: monitors attach from the harness (proxies, attribute replacement, sys.monitoring, audit hooks); checks import /repo's working tree directly",
            "baseline_off_cmd": BASE,
            "source_commits": [],
            "add_only": True,
        },
        "engines": [{"name": "vf", "path": "vf/engine.py", "serves_properties": sorted(CHECKS),
                     "kind_free_text": "runtime monitoring harness: sharded worker processes run the real code under generated/exhaustive workloads; reference-model, invariant and injected-environment monitors report to the master which writes evidence"}],
        "checks": checks,
        "not_applicable": [{"property_id": p, "reason": "check under construction in this round (no claim yet)"} for p in PENDING if p not in CHECKS],
        "notes": "Exit codes: 0 held on everything observed (KNOWN-FINDING lines possible), 1 VIOLATION, 2 INCONCLUSIVE. Env: VERIF_SEED, VERIF_TIER, VERIF_JOBS, VERIF_REPO (calibration only).",
    }
    if not man["not_applicable"]:
        del man["not_applicable"]
    with open(os.path.join(ROOT, "MANIFEST.json"), "w") as f:
        json.dump(man, f, indent=1)
    try:
        import jsonschema
        jsonschema.validate(man, json.load(open("/root/.vp/MANIFEST.schema.json")))
        print("MANIFEST.json valid, %d checks" % len(checks))
    except ImportError:
        print("written (jsonschema unavailable)")


if __name__ == "__main__":
    main()
