#!/usr/bin/env python3
"""Calibration: apply each catalogued property-breaking edit to a scratch copy of /repo (never to
/repo itself), confirm the pinned test-suite still passes there (optional), run the property's
check against the copy (VERIF_REPO) and require a VIOLATION.  The copy is deleted afterwards.

usage: tools/mutate.py [--tests] [--tier quick|thorough] [--only SUBSTR] [--neutral]
"""
import json
import os
import shutil
import subprocess
import sys
import tempfile

ROOT = os.path.dirname(os.path.dirname(os.path.abspath(__file__)))
sys.path.insert(0, ROOT)
from mutants.catalog import MUTANTS, NEUTRAL  # noqa: E402


def make_copy():
    d = tempfile.mkdtemp(prefix="vf-mut-")
    dst = os.path.join(d, "repo")
    shutil.copytree("/repo", dst, ignore=shutil.ignore_patterns(".git", "__pycache__", ".pytest_cache", ".benchmarks"))
    return d, dst


def apply(dst, m):
    edits = m["edits"] if "edits" in m else [m]
    for e in edits:
        p = os.path.join(dst, e["file"])
        s = open(p).read()
        if s.count(e["old"]) != e.get("count", 1):
            raise ValueError("mutant %s: pattern occurs %d times in %s" % (m["id"], s.count(e["old"]), e["file"]))
        s = s.replace(e["old"], e["new"])
        open(p, "w").write(s)


def run_tests(dst):
    r = subprocess.run(
        ["/venv/bin/python", "-B", "-m", "pytest", "-q", "-p", "no:cacheprovider", "--continue-on-collection-errors"],
        cwd=dst, capture_output=True, text=True, env=dict(os.environ, PYTHONDONTWRITEBYTECODE="1", PYTHONPATH=os.path.join(dst, "src")))
    tail = (r.stdout.strip().splitlines() or [""])[-1]
    import re
    m = re.search(r"(\d+) passed", tail)
    f = re.search(r"(\d+) failed", tail)
    return "%s passed%s" % (m.group(1) if m else "?", (", %s FAILED" % f.group(1)) if f else "")


def main():
    args = sys.argv[1:]
    tier = "quick"
    only = None
    tests = "--tests" in args
    neutral = "--neutral" in args
    if "--tier" in args:
        tier = args[args.index("--tier") + 1]
    if "--only" in args:
        only = args[args.index("--only") + 1]
    results = []
    todo = NEUTRAL if neutral else MUTANTS
    for m in todo:
        if only and only not in m["id"]:
            continue
        d, dst = make_copy()
        try:
            try:
                apply(dst, m)
            except ValueError as e:
                print("%-44s **STALE PATTERN** %s" % (m["id"], e), flush=True)
                results.append((m["id"], "-", False, -1, "-", []))
                continue
            tline = run_tests(dst) if tests else "-"
            props = m["props"] if "props" in m else [m["prop"]]
            for prop in props:
                env = dict(os.environ, VERIF_REPO=dst, VERIF_NO_EVIDENCE="1")
                r = subprocess.run([os.path.join(ROOT, "check"), prop, tier], capture_output=True, text=True, env=env)
                vio = [l for l in r.stdout.splitlines() if l.startswith("VIOLATION")]
                mech = [l.strip() for l in r.stdout.splitlines() if l.strip().startswith("mechanism:")]
                want = 0 if neutral else 1
                ok = (r.returncode == want)
                results.append((m["id"], prop, ok, r.returncode, tline, mech[:2]))
                print("%-44s %s rc=%d %s tests[%s] %s" % (m["id"], prop, r.returncode, "OK" if ok else "**MISSED**" if not neutral else "**FALSE ALARM**", tline, "; ".join(mech[:2])), flush=True)
                if not ok:
                    print("    " + "\n    ".join(r.stdout.strip().splitlines()[-6:]))
        finally:
            shutil.rmtree(d, ignore_errors=True)
    bad = [r for r in results if not r[2]]
    print("%d/%d as expected" % (len(results) - len(bad), len(results)))
    return 1 if bad else 0


if __name__ == "__main__":
    sys.exit(main())
