"""Guarded buffer: a Python-level analogue of a red-zone sanitizer for the reader's data.

Installed as reader._data (diagnostic: a reader without that private attribute simply is not guarded).
It forwards to the real bytes but logs every index/slice the reader touches and refuses Python's
silent conveniences that would hide an over-read: negative indices wrapping round to the end of the
buffer.  Slices of the view are views over the same window bookkeeping, and memoryview(view) works
through the 3.12 buffer protocol, so EoReader.slice() children stay guarded."""


class Guard:
    def __init__(self):
        self.bad = []
        self.accesses = 0
        self.max_index = -1

    def report(self, what):
        if len(self.bad) < 5:
            self.bad.append(what)


class GView:
    def __init__(self, data, guard, lo=0, hi=None):
        self._d = data if isinstance(data, bytes) else bytes(data)
        self._g = guard
        self._lo = lo
        self._hi = len(self._d) if hi is None else hi

    def __len__(self):
        return self._hi - self._lo

    def __buffer__(self, flags):
        return memoryview(self._d)[self._lo:self._hi]

    def __getitem__(self, i):
        g = self._g
        g.accesses += 1
        n = self._hi - self._lo
        if isinstance(i, slice):
            start, stop, step = i.start, i.stop, i.step
            if step not in (None, 1):
                return bytes(self._d[self._lo:self._hi][i])
            if (start is not None and start < 0) or (stop is not None and stop < 0):
                g.report("negative slice bound [%r:%r] on a buffer of %d bytes" % (start, stop, n))
                return bytes(self._d[self._lo:self._hi][i])
            s = 0 if start is None else min(start, n)
            e = n if stop is None else min(stop, n)
            e = max(s, e)
            if e - 1 > g.max_index:
                g.max_index = e - 1
            return GView(self._d, g, self._lo + s, self._lo + e)
        if i < 0:
            g.report("negative index %d (would wrap round to the end of the buffer)" % i)
            raise IndexError(i)
        if i >= n:
            g.report("index %d past the end of a %d-byte window" % (i, n))
            raise IndexError(i)
        if i > g.max_index:
            g.max_index = i
        return self._d[self._lo + i]

    # --- the rest of the memoryview surface a reader may legitimately rely on
    @property
    def obj(self):
        return self._d  # like memoryview.obj: the *base* buffer, not the window

    @property
    def nbytes(self):
        return self._hi - self._lo

    readonly = True
    itemsize = 1
    ndim = 1
    format = "B"

    def tolist(self):
        return list(self._d[self._lo:self._hi])

    def hex(self, *a):
        return self._d[self._lo:self._hi].hex(*a)

    def __contains__(self, x):
        return x in self._d[self._lo:self._hi]

    def index(self, *a):
        return self._d[self._lo:self._hi].index(*a)

    def count(self, *a):
        return self._d[self._lo:self._hi].count(*a)

    def release(self):
        pass

    def toreadonly(self):
        return self

    def __enter__(self):
        return self

    def __exit__(self, *a):
        return False

    def __bytes__(self):
        return self._d[self._lo:self._hi]

    def __iter__(self):
        return iter(self._d[self._lo:self._hi])

    def tobytes(self):
        return self._d[self._lo:self._hi]

    def __eq__(self, other):
        return bytes(self) == bytes(other)

    def find(self, *a):
        return self._d[self._lo:self._hi].find(*a)


def install(reader, data):
    """Replace reader._data by a guarded view; returns the Guard or None if the reader keeps its
    bytes elsewhere (then the check is simply not guarded)."""
    if not hasattr(reader, "_data"):
        return None
    g = Guard()
    try:
        reader._data = GView(bytes(data), g)
    except Exception:
        return None
    return g
