"""Thread stress: the pure functions and per-instance objects of the library have no business sharing
state between threads.  `hammer` runs `work(tid, rnd)` on several threads with the interpreter's
switch interval lowered, so that switches fall inside the calls under observation; every worker compares
its own results with its own oracle and returns a list of (mechanism, message, case) findings."""
import sys
import threading


def hammer(work, threads=4, rounds=3, interval=1e-6, inject=None, first_round=0):
    """inject: path prefix - line-level yield injection (class Yields) inside files under it; such runs are an
    order of magnitude slower, the caller passes first_round >= 100 and the workers do less then."""
    old = sys.getswitchinterval()
    sys.setswitchinterval(interval)
    found, errors = [], []
    lock = threading.Lock()
    inj = Yields(inject) if inject else None
    if inj is not None:
        inj.__enter__()

    def run(tid, rnd):
        try:
            out = work(tid, rnd) or []
        except BaseException as e:  # a worker that dies is a finding of the harness, reported by the caller
            with lock:
                errors.append("thread %d round %d: %r" % (tid, rnd, e))
            return
        if out:
            with lock:
                found.extend(out[:3])
    try:
        for rnd in range(first_round, first_round + rounds):
            ts = [threading.Thread(target=run, args=(i, rnd)) for i in range(threads)]
            for t in ts:
                t.start()
            for t in ts:
                t.join()
    finally:
        sys.setswitchinterval(old)
        if inj is not None:
            inj.__exit__()
            hammer.lines_with_injection = getattr(hammer, "lines_with_injection", 0) + inj.lines
    return found, errors


def cold(work, attempts=100, threads=8, interval=1e-6, inject=None):
    """First use from several threads at once: for every attempt the hand-written modules are imported
    afresh (module-level tables, caches and memos are empty again), then `threads` threads are released
    from a barrier and call work(ns, tid, attempt) -> list of findings."""
    from vf import stage

    old = sys.getswitchinterval()
    sys.setswitchinterval(interval)
    found, errors = [], []
    lock = threading.Lock()
    inj = Yields(inject) if inject else None
    if inj is not None:
        inj.__enter__()
    try:
        for attempt in range(attempts):
            ns = stage.shim()
            barrier = threading.Barrier(threads)

            def run(tid, ns=ns, attempt=attempt):
                try:
                    barrier.wait()
                    out = work(ns, tid, attempt) or []
                except BaseException as e:
                    with lock:
                        errors.append("attempt %d thread %d: %r" % (attempt, tid, e))
                    return
                if out:
                    with lock:
                        found.extend(out[:2])
            ts = [threading.Thread(target=run, args=(i,)) for i in range(threads)]
            for t in ts:
                t.start()
            for t in ts:
                t.join()
            if found or errors:
                break
    finally:
        sys.setswitchinterval(old)
        if inj is not None:
            inj.__exit__()
            cold.lines_with_injection = inj.lines
    return found, errors


class Yields:
    """Yield injection (sys.monitoring, 3.12+): at every line event inside files under `prefix` the running
    thread gives up the interpreter with probability p, so that thread switches fall between any two
    statements of the code under observation instead of only where the scheduler happens to put them."""

    TOOL = 3

    def __init__(self, prefix, p=0.35, seed=0):
        import random

        self.prefix, self.p, self.rng, self.lines = prefix, p, random.Random(seed), 0
        self.active = False

    def __enter__(self):
        mon = getattr(sys, "monitoring", None)
        if mon is None:
            return self
        try:
            mon.use_tool_id(self.TOOL, "vf-yield-injection")
        except ValueError:
            return self
        mon.register_callback(self.TOOL, mon.events.LINE, self._line)
        mon.set_events(self.TOOL, mon.events.LINE)
        self.active = True
        return self

    def _line(self, code, line):
        if not code.co_filename.startswith(self.prefix):
            return sys.monitoring.DISABLE
        self.lines += 1
        if self.rng.random() < self.p:
            import time

            time.sleep(0)

    def __exit__(self, *exc):
        if self.active:
            mon = sys.monitoring
            mon.set_events(self.TOOL, 0)
            mon.register_callback(self.TOOL, mon.events.LINE, None)
            mon.free_tool_id(self.TOOL)
            self.active = False
        return False
