"""Thread stress: the pure functions and per-instance objects of the library have no business sharing
state between threads.  `hammer` runs `work(tid, rnd)` on several threads with the interpreter's
switch interval lowered, so that switches fall inside the calls under observation; every worker compares
its own results with its own oracle and returns a list of (mechanism, message, case) findings."""
import sys
import threading


def hammer(work, threads=4, rounds=3, interval=1e-6):
    old = sys.getswitchinterval()
    sys.setswitchinterval(interval)
    found, errors = [], []
    lock = threading.Lock()

    def run(tid, rnd):
        try:
            out = work(tid, rnd) or []
        except BaseException as e:  # a worker that dies is a finding of the harness, reported by the caller
            with lock:
                errors.append("thread %d round %d: %r" % (tid, rnd, e))
            return
        if out:
            with lock:
                found.extend(out[:3])
    try:
        for rnd in range(rounds):
            ts = [threading.Thread(target=run, args=(i, rnd)) for i in range(threads)]
            for t in ts:
                t.start()
            for t in ts:
                t.join()
    finally:
        sys.setswitchinterval(old)
    return found, errors
