"""Frame monitor: wraps serialize/deserialize of every class of every generated module (nested case
classes included) and records (class, entry mode, exit mode, outcome) for every call - whether it
returns or raises.  Generated code resolves the callee on the class at call time, so nested struct
and case-data calls go through the wrappers too."""
import inspect
import sys


class FrameLog:
    def __init__(self):
        self.records = 0
        self.raised = 0
        self.leaks = []
        self.depth = 0
        self.max_depth = 0
        self.classes = set()

    def leak(self, kind, cls, m0, m1, outcome):
        if len(self.leaks) < 10:
            self.leaks.append((kind, cls, m0, m1, outcome))


def _wrap(C, log):
    qual = C.__qualname__
    for kind, attr in (("serialize", "string_sanitization_mode"), ("deserialize", "chunked_reading_mode")):
        raw = C.__dict__.get(kind)
        if not isinstance(raw, staticmethod):
            continue
        orig = raw.__func__
        if getattr(orig, "_vf_wrapped", False):
            continue

        def make(orig=orig, kind=kind, attr=attr):
            def wrapper(*a, **kw):
                target = a[0]
                m0 = getattr(target, attr)
                log.depth += 1
                if log.depth > log.max_depth:
                    log.max_depth = log.depth
                outcome = "return"
                try:
                    return orig(*a, **kw)
                except BaseException as e:
                    outcome = "raise:" + type(e).__name__
                    log.raised += 1
                    raise
                finally:
                    log.depth -= 1
                    m1 = getattr(target, attr)
                    log.records += 1
                    if len(log.classes) < 3000:
                        log.classes.add(qual)
                    if bool(m1) != bool(m0):
                        log.leak(kind, qual, m0, m1, outcome)
            wrapper._vf_wrapped = True
            wrapper.__wrapped__ = orig
            return wrapper
        setattr(C, kind, staticmethod(make()))
    for v in list(C.__dict__.values()):
        if inspect.isclass(v) and v.__module__ == C.__module__:
            _wrap(v, log)


def install(log, prefix="eolib.protocol._generated"):
    """Wrap every generated class currently imported. Returns number of top-level classes wrapped."""
    n = 0
    for name, mod in list(sys.modules.items()):
        if mod is None or not (name == prefix or name.startswith(prefix + ".")):
            continue
        for v in list(vars(mod).values()):
            if inspect.isclass(v) and v.__module__ == name:
                _wrap(v, log)
                n += 1
    return n
