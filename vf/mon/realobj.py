"""Bridging reference-side values (interp.Obj) and real generated objects: class lookup, construction
from kwargs, and AST-driven deep comparison (generated classes define no __eq__)."""
import importlib

from vf.ref.interp import Obj


import collections.abc as _abc


class _View(_abc.Sequence):
    """Read-only window on somebody else's list."""

    def __init__(self, backing):
        self._backing = backing

    def __getitem__(self, i):
        return self._backing[i]

    def __len__(self):
        return len(self._backing)


def _truth(v):
    return str(v).strip().lower() in ("true", "1")


def _int(v):
    try:
        return int(str(v).strip())
    except ValueError:
        return 0


class Bridge:
    def __init__(self, interp, pkg="eolib.protocol._generated"):
        self.interp = interp
        self.pkg = pkg
        self._cls = {}
        self.enum_as_int = False

    # ---- classes
    def top_class(self, name):
        if name in self._cls:
            return self._cls[name]
        it = self.interp
        if name in it.paths:
            path = it.paths[name]
        else:
            path = it.types[name][1]
        modname = self.pkg + ("." + path.replace("/", ".") if path else "")
        mod = importlib.import_module(modname)
        c = getattr(mod, name)
        self._cls[name] = c
        return c

    def real_class(self, cls):
        c = self.top_class(cls[0])
        for part in cls[1:]:
            c = getattr(c, part)
        return c

    def params(self, cls):
        """[(param_name, instr)] constructor parameters in declaration order."""
        body, _c, _i = self.interp.body_of(tuple(cls))
        out = []

        def visit(b):
            for ins in b:
                if ins.kind == "field" and ins.name is not None:
                    out.append((ins.name, ins))
                elif ins.kind == "array":
                    out.append((ins.name, ins))
                elif ins.kind == "switch":
                    out.append((ins.field + "_data", ins))
                elif ins.kind == "chunked":
                    visit(ins.body)
        visit(body)
        return out

    # ---- construction
    def to_real(self, v, ins, array_form=0, handles=None):
        it = self.interp
        if v is None:
            return None
        if ins.kind == "switch":
            return self.build(v, array_form, handles)
        t = it.resolve(ins.type)

        def conv(x):
            if x is None:
                return None
            if t.kind == "enum":
                if self.enum_as_int and not isinstance(x, bool):
                    return int(x)  # an equal integer that is not the member object itself
                return self.top_class(t.name)(x)
            if t.kind == "struct":
                return self.build(x, array_form, handles)
            if t.kind == "blob":
                return bytes(x)
            return x
        if ins.kind == "array":
            items = [conv(x) for x in v]
            if array_form == 1:
                return tuple(items)
            if array_form == 2:
                return (x for x in items)
            if array_form == 3 and t.kind == "int" and all(isinstance(x, int) and 0 <= x < 256 for x in items):
                items = bytearray(items)  # a mutable Iterable[int] that is not a list
            if array_form == 5:
                # other iterables of the standard library: a range where the integers happen to be a run, else a deque
                import collections

                if t.kind == "int" and all(type(x) is int for x in items) and all(b - a == 1 for a, b in zip(items, items[1:])):
                    return range(items[0], items[0] + len(items)) if items else range(0)
                return collections.deque(items)
            if array_form == 6:
                # ... an array.array for integers, else the values view of a dict
                import array

                if t.kind == "int" and all(type(x) is int and 0 <= x < 2 ** 62 for x in items):
                    return array.array("q", items)
                return dict(enumerate(items)).values()
            if array_form == 4:
                # a read-only view (a Sequence that is neither a tuple nor mutable itself) over a list its owner
                # goes on changing
                if handles is not None:
                    handles.append(items)
                return _View(items)
            if handles is not None:
                handles.append(items)
            return items
        return conv(v)

    def build(self, obj, array_form=0, handles=None):
        C = self.real_class(obj.cls)
        kwargs = {}
        for name, ins in self.params(obj.cls):
            if ins.kind == "field" and ins.value is not None and ins.optional and self.decoy_hardcoded and len(name) % 2 == 0:
                # ... and when it is optional as well it may simply be left out (or given as None): the object carries
                # the value of the specification all the same
                if len(name) % 4 == 0:
                    kwargs[name] = None
                continue
            if ins.kind == "field" and ins.value is not None and self.decoy_hardcoded:
                # a named field with a hard-coded value is still a constructor parameter; whatever the caller
                # passes there, the object carries (and writes) the value of the specification
                t = self.interp.resolve(ins.type)
                kwargs[name] = "zz" if t.kind in ("str", "estr") else (not _truth(ins.value)) if t.kind == "bool" else (_int(ins.value) + 1) % 250
                continue
            kwargs[name] = self.to_real(obj.fields.get(name), ins, array_form, handles)
        return C(**kwargs)

    decoy_hardcoded = True

    def walk(self, obj, real, fn, where=""):
        """fn(real_instance, cls_path, param_names, where) for the instance and every nested generated instance."""
        names = [n for n, _i in self.params(obj.cls)]
        fn(real, obj.cls, names, where)
        for name, ins in self.params(obj.cls):
            mv = obj.fields.get(name)
            try:
                rv = getattr(real, name)
            except Exception:
                continue
            if isinstance(mv, Obj) and rv is not None:
                self.walk(mv, rv, fn, where + "." + name)
            elif isinstance(mv, (list, tuple)) and rv is not None:
                for i, (a, b) in enumerate(zip(mv, rv)):
                    if isinstance(a, Obj) and i < 2:
                        self.walk(a, b, fn, "%s.%s[%d]" % (where, name, i))

    def pairs(self, obj, real, where=""):
        """(reference object, real instance, where) for the instance and every nested generated instance."""
        out = []
        self.walk(obj, real, lambda inst, cls, names, w: out.append([None, inst, w]))
        # the reference objects in the same order (walk visits fields in declaration order, arrays up to 2 elements)
        refs = []

        def visit(o):
            refs.append(o)
            for name, ins in self.params(o.cls):
                mv = o.fields.get(name)
                if isinstance(mv, Obj):
                    visit(mv)
                elif isinstance(mv, (list, tuple)):
                    for i, a in enumerate(mv):
                        if isinstance(a, Obj) and i < 2:
                            visit(a)
        visit(obj)
        if len(refs) != len(out):
            return []
        return [(r, o[1], o[2]) for r, o in zip(refs, out)]

    # ---- comparison
    def compare(self, obj, real, where="", byte_size=False, out=None):
        """Differences between a reference value and a real object, as a list of strings."""
        out = [] if out is None else out
        it = self.interp
        try:
            C = self.real_class(obj.cls)
        except Exception as e:
            out.append("%s: class %s not found (%r)" % (where, ".".join(obj.cls), e))
            return out
        if type(real) is not C:
            out.append("%s: instance of %s, expected %s" % (where or "<root>", type(real).__qualname__, ".".join(obj.cls)))
            return out
        if byte_size and getattr(real, "byte_size", None) != obj.byte_size:
            out.append("%s.byte_size: real %r, reference %r" % (where, getattr(real, "byte_size", None), obj.byte_size))
        for name, ins in self.params(obj.cls):
            w = "%s.%s" % (where, name)
            try:
                rv = getattr(real, name)
            except Exception as e:
                out.append("%s: attribute access raised %r" % (w, e))
                continue
            mv = obj.fields.get(name)
            if ins.kind == "field" and ins.value is not None:
                continue  # named hard-coded field: don't-care position after deserialization
            if ins.kind == "switch":
                if mv is None or rv is None:
                    if mv is not rv and not (mv is None and rv is None):
                        out.append("%s: real %r, reference %r" % (w, rv, mv))
                else:
                    self.compare(mv, rv, w, byte_size, out)
                continue
            t = it.resolve(ins.type)
            if ins.kind == "array":
                if mv is None or rv is None:
                    if not (mv is None and rv is None):
                        out.append("%s: real %r, reference %r" % (w, rv, mv))
                    continue
                if not isinstance(rv, tuple):
                    out.append("%s: array property is %s, not tuple" % (w, type(rv).__name__))
                    continue
                if len(rv) != len(mv):
                    out.append("%s: %d elements, reference %d" % (w, len(rv), len(mv)))
                    continue
                for i, (a, b) in enumerate(zip(mv, rv)):
                    self._cmp_scalar(t, a, b, "%s[%d]" % (w, i), byte_size, out)
            else:
                self._cmp_scalar(t, mv, rv, w, byte_size, out)
        return out

    def _cmp_scalar(self, t, mv, rv, w, byte_size, out):
        if mv is None or rv is None:
            if not (mv is None and rv is None):
                out.append("%s: real %r, reference %r" % (w, rv, mv))
            return
        if t.kind == "int":
            if type(rv) is not int or rv != mv:
                out.append("%s: real %r, reference %r" % (w, rv, mv))
        elif t.kind == "bool":
            if rv is not bool(mv):
                out.append("%s: real %r, reference %r" % (w, rv, bool(mv)))
        elif t.kind in ("str", "estr"):
            if type(rv) is not str or rv != mv:
                out.append("%s: real %r, reference %r" % (w, rv, mv))
        elif t.kind == "blob":
            if not isinstance(rv, (bytes, bytearray)) or bytes(rv) != bytes(mv):
                out.append("%s: real %r, reference %r" % (w, rv, bytes(mv)))
        elif t.kind == "enum":
            E = self.top_class(t.name)
            declared = {v[1]: ("None_" if v[0] == "None" else v[0]) for v in t.decl.values}
            want_name = declared.get(int(mv), "Unrecognized(%d)" % int(mv))
            try:
                ok = isinstance(rv, E) and int(rv) == int(mv) and rv.name == want_name
            except Exception as e:
                ok = False
                want_name += " (%r)" % e
            if not ok:
                out.append("%s: real %r, reference %s(%d) named %s" % (w, rv, t.name, int(mv), want_name))
        elif t.kind == "struct":
            if not isinstance(mv, Obj):
                out.append("%s: reference value is not an object" % w)
            else:
                self.compare(mv, rv, w, byte_size, out)
