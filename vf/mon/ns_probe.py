"""Fresh-interpreter namespace probe for C20.
argv: pkg_parent first_module decl_json  ->  one JSON line {problems: [[mechanism, text]...], counts}"""
import ast
import importlib
import inspect
import json
import os
import sys
import types


# The public API of the hand-written half at the pinned commit (module -> names it defines).  Checked in
# addition to what each module declares today, so that a name silently dropped from the exports (for
# instance by adding a too-short __all__) is noticed.  Additions to the API do not matter here.
PINNED_API = {
    "eolib.data.eo_numeric_limits": ["CHAR_MAX", "SHORT_MAX", "THREE_MAX", "INT_MAX"],
    "eolib.data.number_encoding_utils": ["encode_number", "decode_number"],
    "eolib.data.string_encoding_utils": ["encode_string", "decode_string"],
    "eolib.data.eo_reader": ["EoReader"],
    "eolib.data.eo_writer": ["EoWriter"],
    "eolib.encrypt.encryption_utils": ["interleave", "deinterleave", "flip_msb", "swap_multiples"],
    "eolib.encrypt.server_verification_utils": ["server_verification_hash"],
    "eolib.packet.sequence_start": ["SequenceStart", "AccountReplySequenceStart", "InitSequenceStart", "PingSequenceStart"],
    "eolib.packet.packet_sequencer": ["PacketSequencer"],
    "eolib.protocol.serialization_error": ["SerializationError"],
    "eolib.protocol.protocol_enum_meta": ["ProtocolEnumMeta"],
    "eolib.protocol.net.packet": ["Packet"],
}


def static_modules(pkg_dir):
    """dotted name -> file for every module/package below eolib (generated ones included)."""
    out = {}
    for d, dirs, files in os.walk(pkg_dir):
        dirs[:] = sorted(x for x in dirs if x != "__pycache__")
        rel = os.path.relpath(d, os.path.dirname(pkg_dir)).replace(os.sep, ".")
        for f in sorted(files):
            if not f.endswith(".py"):
                continue
            if f == "__init__.py":
                out[rel] = os.path.join(d, f)
            elif f != "__about__.py":
                out[rel + "." + f[:-3]] = os.path.join(d, f)
    return out


def without_leftovers(mods, decls):
    """Module files below _generated that no declaration of the specification accounts for (what an earlier
    revision left behind in the output directory) are not modules of this package."""
    declared = {d["module"] for d in decls}
    return {m: f for m, f in mods.items() if "._generated." not in m or f.endswith("__init__.py") or m in declared}


def defined_names(modname, path, mod):
    """Public names a hand-written module defines: __all__ if declared, else its own classes/functions
    plus top-level assigned constants."""
    if hasattr(mod, "__all__"):
        return list(mod.__all__)
    names = []
    tree = ast.parse(open(path, encoding="utf-8").read())
    for node in tree.body:
        if isinstance(node, (ast.ClassDef, ast.FunctionDef, ast.AsyncFunctionDef)):
            if not node.name.startswith("_"):
                names.append(node.name)
        elif isinstance(node, ast.Assign):
            for t in node.targets:
                if isinstance(t, ast.Name) and not t.id.startswith("_"):
                    names.append(t.id)
        elif isinstance(node, ast.AnnAssign) and isinstance(node.target, ast.Name) and node.value is not None:
            if not node.target.id.startswith("_"):
                names.append(node.target.id)
    return names


def main():
    pkg_parent, first, decl_path = sys.argv[1:4]
    decls = json.load(open(decl_path))
    sys.path.insert(0, pkg_parent)
    problems = []
    counts = {"paths": 0, "static_names": 0, "generated_classes": 0}

    def problem(mech, text):
        if len(problems) < 40:
            problems.append([mech, text])

    try:
        importlib.import_module(first)
    except BaseException as e:
        problem("first-import-fails", "import %s raised %s: %s" % (first, type(e).__name__, e))
        print(json.dumps({"problems": problems, "counts": counts}))
        return
    try:
        import eolib
    except BaseException as e:
        problem("import-eolib-fails", "import eolib after %s raised %r" % (first, e))
        print(json.dumps({"problems": problems, "counts": counts}))
        return
    mods = static_modules(os.path.join(pkg_parent, "eolib"))
    counts["leftover_files_ignored"] = len(mods) - len(without_leftovers(mods, decls))
    mods = without_leftovers(mods, decls)
    # (a) every documented dotted path is reachable by attribute access and is the module the import system resolves
    for dotted in sorted(mods):
        if dotted == "eolib":
            continue
        counts["paths"] += 1
        try:
            want = importlib.import_module(dotted)
        except BaseException as e:
            problem("module-not-importable", "%s: %r" % (dotted, e))
            continue
        if sys.modules.get(dotted) is not want:
            problem("sys-modules-inconsistent", dotted)
        obj = eolib
        ok = True
        walked = "eolib"
        for part in dotted.split(".")[1:]:
            walked += "." + part
            try:
                obj = getattr(obj, part)
            except AttributeError:
                problem("attribute-walk-fails", "%s: attribute access stops at %s (AttributeError)" % (dotted, walked))
                ok = False
                break
            if obj is not sys.modules.get(walked):
                what = getattr(obj, "__name__", repr(obj)[:60])
                problem("attribute-walk-reaches-wrong-object", "%s: %s is %s, the import system resolves %s" % (dotted, walked, what, walked))
                ok = False
                break
    # (b) public names defined by hand-written modules
    for dotted, path in sorted(mods.items()):
        if "._generated" in dotted or path.endswith("__init__.py"):
            continue
        mod = sys.modules.get(dotted)
        if mod is None:
            continue
        home = sys.modules.get(dotted.rsplit(".", 1)[0])
        names = list(defined_names(dotted, path, mod))
        for n in PINNED_API.get(dotted, []):
            if n not in names:
                names.append(n)
        for name in names:
            counts["static_names"] += 1
            try:
                obj = getattr(mod, name)
            except AttributeError:
                problem("declared-name-missing", "%s.%s" % (dotted, name))
                continue
            for where, m in (("eolib", eolib), (home.__name__, home)):
                got = getattr(m, name, _MISSING)
                if got is _MISSING:
                    problem("public-name-not-exported", "%s (defined in %s) is not an attribute of %s" % (name, dotted, where))
                elif got is not obj:
                    problem("public-name-resolves-to-other-object", "%s.%s is %r, not the object defined in %s" % (where, name, got, dotted))
    # (c) generated classes
    for d in decls:
        counts["generated_classes"] += 1
        try:
            C = getattr(importlib.import_module(d["module"]), d["name"])
        except BaseException as e:
            problem("generated-class-missing", "%s in %s: %r" % (d["name"], d["module"], e))
            continue
        pub = "eolib.protocol" + ("." + d["path"].replace("/", ".") if d["path"] else "")
        for where in ("eolib", pub):
            m = sys.modules.get(where)
            got = getattr(m, d["name"], _MISSING) if m is not None else _MISSING
            if got is _MISSING:
                problem("generated-class-not-exported", "%s is not an attribute of %s" % (d["name"], where))
            elif got is not C and not str(getattr(got, "__module__", "eolib")).startswith("eolib"):
                # the name resolves to something from outside the library: a helper the generated modules import for
                # their own use (collections.abc.Iterable, typing.Optional ...) travelled along a star-import
                problem("generated-class-shadowed-by-imported-helper:" + d["name"], "%s.%s is %r (module %s), not the class defined in %s" % (where, d["name"], got, getattr(got, "__module__", "?"), d["module"]))
            elif got is not C:
                problem("generated-class-resolves-to-other-object", "%s.%s is %r, not the class defined in %s" % (where, d["name"], got, d["module"]))
    print(json.dumps({"problems": problems, "counts": counts}))


_MISSING = object()

if __name__ == "__main__":
    main()
