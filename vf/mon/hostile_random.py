"""Choice-tree enumerator standing in for the `random` module: every draw requested by the code under
test is logged (with its range) and answered with each possible value in turn (odometer over draw
scripts), so all outcomes of a function that draws from finite ranges are produced exactly once."""
import random as _real_random


class Enumerator:
    MAX_DEPTH = 8  # draws of one call that are enumerated; a call that draws more often (a redraw loop) gets ordinary pseudo-random answers from there on

    def __init__(self, part=0, parts=1):
        self.beyond_depth = 0
        self._fallback = _real_random.Random(12)
        self.script = []  # [index, size, first_index_for_reset]
        self.pos = 0
        self.part, self.parts = part, parts
        self.draws = 0
        self.ranges_seen = set()

    # --- the random API the code may use
    def _choose(self, n, label):
        if n <= 0:
            raise ValueError("empty range for randrange() %s" % (label,))
        self.draws += 1
        if len(self.ranges_seen) < 4000:
            self.ranges_seen.add(label)
        if self.pos == len(self.script) and self.pos >= self.MAX_DEPTH:
            self.beyond_depth += 1
            return self._fallback.randrange(n)
        if self.pos == len(self.script):
            start = self.part if self.pos == 0 else 0
            step = self.parts if self.pos == 0 else 1
            if start >= n:
                raise _Exhausted()
            self.script.append([start, n, step])
        ent = self.script[self.pos]
        ent[1] = n
        self.pos += 1
        return ent[0]

    def randrange(self, start, stop=None, step=1):
        if stop is None:
            start, stop = 0, start
        r = range(start, stop, step)
        return r[self._choose(len(r), (start, stop, step))]

    def randint(self, a, b):
        return self.randrange(a, b + 1)

    def choice(self, seq):
        return seq[self._choose(len(seq), ("choice", len(seq)))]

    def getrandbits(self, k):
        return self._choose(1 << k, ("bits", k))

    def random(self):
        # a float draw cannot be enumerated; sample a few representative points
        pts = (0.0, 0.25, 0.5, 0.75, 1.0 - 2 ** -53)
        return pts[self._choose(len(pts), ("random",))]

    def uniform(self, a, b):
        return a + (b - a) * self.random()

    # --- odometer
    def begin(self):
        self.pos = 0

    def advance(self):
        """Move to the next draw script; False when every script has been produced."""
        del self.script[self.pos:]
        while self.script:
            ent = self.script[-1]
            if ent[0] + ent[2] < ent[1]:
                ent[0] += ent[2]
                return True
            self.script.pop()
        return False

    def current(self):
        return [e[0] for e in self.script[: self.pos]]


class Sticky(Enumerator):
    """A random source that is stuck: every draw of a call is answered with the same index k (modulo the size of
    the range asked for).  After CAP draws in one call it answers pseudo-randomly, so that a redraw loop ends."""
    CAP = 5000

    def __init__(self, k):
        Enumerator.__init__(self)
        self.k = k
        self.in_call = 0
        self.capped = 0

    def begin(self):
        self.in_call = 0

    def _choose(self, n, label):
        if n <= 0:
            raise ValueError("empty range for randrange() %s" % (label,))
        self.draws += 1
        self.in_call += 1
        if self.in_call > self.CAP:
            if self.in_call == self.CAP + 1:
                self.capped += 1
            return self._fallback.randrange(n)
        return self.k % n


class _Exhausted(Exception):
    pass


PATCHED = ("randrange", "randint", "choice", "getrandbits", "random", "uniform")


def install(enum, modules):
    """Patch the global random module's functions and each given module's `random` binding."""
    saved = {name: getattr(_real_random, name) for name in PATCHED}
    for name in PATCHED:
        setattr(_real_random, name, getattr(enum, name))
    saved_mods = []
    for m in modules:
        if hasattr(m, "random"):
            saved_mods.append((m, m.random))
            m.random = enum
    return saved, saved_mods


def uninstall(saved):
    s, mods = saved
    for name, f in s.items():
        setattr(_real_random, name, f)
    for m, r in mods:
        m.random = r
