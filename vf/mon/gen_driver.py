"""Runs the repository's generator in this (fresh) interpreter under a chosen configuration and
reports what it did as one JSON line.  argv: repo xml_root out_root mode walk_seed
mode: once | twice-same-instance | twice-new-instance | cli (repo = a scratch copy containing protocol.py)"""
import json
import os
import random
import sys


def main():
    repo, xml_root, out_root, mode, walk_seed = sys.argv[1:6]
    walk_seed = int(walk_seed)
    writes = []
    walk_order = []

    def hook(event, args):
        if event == "open" and args and isinstance(args[0], str):
            m = args[1]
            if isinstance(m, str) and any(ch in m for ch in "wax+"):
                writes.append(os.path.realpath(args[0]))
    sys.addaudithook(hook)
    if walk_seed:
        real_walk = os.walk
        rng = random.Random(walk_seed)

        def walk(top, *a, **kw):
            for root, dirs, files in real_walk(top, *a, **kw):
                rng.shuffle(dirs)  # in place: changes the traversal order of a top-down walk
                rng.shuffle(files)
                walk_order.append(os.path.relpath(root, top))
                yield root, dirs, files
        os.walk = walk
    sys.path.insert(0, repo)
    from pathlib import Path
    import io
    import contextlib

    res = {"ok": True, "error": None}
    buf = io.StringIO()
    try:
        with contextlib.redirect_stdout(buf):
            from protocol_code_generator.generate.code_generator import ProtocolCodeGenerator

            if mode == "once":
                ProtocolCodeGenerator(Path(xml_root)).generate(Path(out_root))
            elif mode == "twice-same-instance":
                g = ProtocolCodeGenerator(Path(xml_root))
                g.generate(Path(out_root + ".first"))
                del writes[:]
                g.generate(Path(out_root))
            elif mode == "twice-new-instance":
                ProtocolCodeGenerator(Path(xml_root)).generate(Path(out_root + ".first"))
                del writes[:]
                ProtocolCodeGenerator(Path(xml_root)).generate(Path(out_root))
            elif mode == "twice-with-clean-between":
                # what `protocol.py` does, within one process: generate, remove the output, generate again
                import shutil

                ProtocolCodeGenerator(Path(xml_root)).generate(Path(out_root))
                shutil.rmtree(out_root)
                del writes[:]
                ProtocolCodeGenerator(Path(xml_root)).generate(Path(out_root))
            elif mode == "other-tree-first":
                # process-wide state (module-level caches) must not leak from one tree into the next
                ProtocolCodeGenerator(Path(xml_root + ".other")).generate(Path(out_root + ".first"))
                del writes[:]
                ProtocolCodeGenerator(Path(xml_root)).generate(Path(out_root))
            elif mode in ("same-instance-edited", "same-instance-earlier-revision"):
                # one generator instance, the specification edited on disk between two runs (types moved to other
                # directories): the second run must not remember anything of the first
                import shutil

                edit = xml_root + ".edit"
                shutil.rmtree(edit, ignore_errors=True)
                shutil.copytree(xml_root + (".other" if mode == "same-instance-edited" else ".earlier"), edit)
                g = ProtocolCodeGenerator(Path(edit))
                try:
                    g.generate(Path(out_root + ".first"))
                except Exception:
                    if mode == "same-instance-edited":
                        raise
                shutil.rmtree(edit)
                shutil.copytree(xml_root, edit)
                del writes[:]
                g.generate(Path(out_root))
                shutil.rmtree(edit)
            elif mode == "symlinked-roots":
                # both roots reached through symbolic links (a checkout under a linked directory)
                link_in, link_out = xml_root + ".link", out_root + ".link"
                for target, link in ((xml_root, link_in), (os.path.dirname(out_root), link_out)):
                    if os.path.lexists(link):
                        os.remove(link)
                    os.symlink(target, link)
                try:
                    ProtocolCodeGenerator(Path(link_in)).generate(Path(os.path.join(link_out, os.path.basename(out_root))))
                finally:
                    os.remove(link_in)
                    os.remove(link_out)
            elif mode == "relative-roots":
                # both roots spelled relative to the working directory
                os.chdir(os.path.dirname(xml_root))
                ProtocolCodeGenerator(Path(os.path.basename(xml_root))).generate(Path(os.path.relpath(out_root)))
            elif mode == "dot-root":
                # the input root is the working directory itself
                os.chdir(xml_root)
                ProtocolCodeGenerator(Path(".")).generate(Path(out_root))
            elif mode == "unnormalised-roots":
                # the same directories through '..' components
                parent = os.path.dirname(xml_root)
                spelled = os.path.join(parent, "..", os.path.basename(parent), os.path.basename(xml_root))
                oparent = os.path.dirname(out_root)
                ProtocolCodeGenerator(Path(spelled)).generate(Path(os.path.join(oparent, "..", os.path.basename(oparent), os.path.basename(out_root))))
            elif mode == "failed-index-then-good":
                # one generator instance; each specification file in turn is broken on disk (cut in half, or every
                # type in it declared twice), the run fails while reading the tree, the file is repaired and the
                # next run must be as good as a first one
                import shutil

                edit = xml_root + ".edit"
                shutil.rmtree(edit, ignore_errors=True)
                shutil.copytree(xml_root, edit)
                g = ProtocolCodeGenerator(Path(edit))
                k = 0
                failed = 0
                for d, _dirs, names in sorted(os.walk(edit)):
                    if "protocol.xml" not in names:
                        continue
                    f = os.path.join(d, "protocol.xml")
                    good = open(f, "rb").read()
                    k += 1
                    if k % 2:
                        bad = good[: max(12, len(good) // 2)]
                    else:
                        i, j = good.find(b"<protocol>"), good.rfind(b"</protocol>")
                        bad = good if i < 0 or j < 0 else good[:j] + good[i + len(b"<protocol>"):j] + good[j:]
                    open(f, "wb").write(bad)
                    try:
                        g.generate(Path(out_root + ".first"))
                    except Exception:
                        failed += 1
                    open(f, "wb").write(good)
                    del writes[:]
                    g.generate(Path(out_root))
                res["failed_runs"] = failed
                shutil.rmtree(edit)
            elif mode == "failed-then-good":
                # a failed run (output root blocked by a regular file) must not leak state into the next run
                g = ProtocolCodeGenerator(Path(xml_root))
                blocked = out_root + ".blocked"
                open(blocked, "w").close()
                try:
                    g.generate(Path(blocked))
                    res["first_run_unexpectedly_succeeded"] = True
                except Exception:
                    pass
                del writes[:]
                g.generate(Path(out_root))
    except BaseException as e:
        res = {"ok": False, "error": "%s: %s" % (type(e).__name__, e)}
    res["writes"] = writes
    res["walk_order"] = walk_order
    res["hashseed"] = os.environ.get("PYTHONHASHSEED")
    print(json.dumps(res))


if __name__ == "__main__":
    main()
