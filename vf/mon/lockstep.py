"""Lock-step proxies: every call is applied to the real object and to the reference model, the
results and all public observables are compared, the call is logged (the trace is the history at the
client boundary), counted (fuel) and can be told to raise an injected fault at the k-th call."""


class Divergence(BaseException):
    """Real object and model disagree (BaseException so no `except Exception` in code under test hides it)."""

    def __init__(self, what, trace=None):
        super().__init__(what)
        self.what = what
        self.trace = trace or []


class FuelExhausted(BaseException):
    pass


class InjectedFault(Exception):
    """Raised by a proxy at a chosen call index (fault injection for C15)."""


def _outcome(f, *a):
    try:
        return ("ok", f(*a))
    except (ValueError, RuntimeError) as e:
        return ("raise", type(e).__name__)


class LockstepReader:
    """Duck-typed EoReader: real reader + model in lock step."""

    def __init__(self, real, model, trace=None, fuel=None, fail_at=None, counter=None, guard=None, touch=None):
        self._r = real
        self._m = model
        self.trace = trace if trace is not None else []
        self.fuel = fuel
        self.fail_at = fail_at
        self.counter = counter if counter is not None else [0]
        self.touch = touch if touch is not None else [0]  # every interaction, incl. property reads (fuel)
        self.guard = guard
        self.modes = []  # chunked mode of the real reader at every read / next_chunk (C15)

    # -- bookkeeping
    def _touch(self):
        self.touch[0] += 1
        if self.fuel is not None and self.touch[0] > self.fuel:
            raise FuelExhausted("more than %d reader interactions" % self.fuel)

    def _tick(self, name, args, can_fail=True):
        self.counter[0] += 1
        self._touch()
        if can_fail and self.fail_at is not None and self.counter[0] >= self.fail_at:
            self.fail_at = None
            raise InjectedFault("injected reader fault at call %d (%s)" % (self.counter[0], name))

    def _compare(self, name, args, ro, mo):
        if len(self.trace) < 400:
            self.trace.append((name, args, ro[1] if isinstance(ro[1], (int, str, bool, type(None))) else repr(ro[1])[:80]))
        if ro[0] != mo[0]:
            raise Divergence("%s%r: real %r, model %r" % (name, args, ro, mo), self.trace)
        if ro[0] == "ok":
            rv, mv = ro[1], mo[1]
            if isinstance(mv, (bytes, bytearray)):
                if not isinstance(rv, (bytes, bytearray)) or bytes(rv) != bytes(mv):
                    raise Divergence("%s%r returned %r, model %r" % (name, args, rv, bytes(mv)), self.trace)
            elif isinstance(mv, bool) or isinstance(rv, bool):
                if bool(rv) is not bool(mv) or not isinstance(rv, (bool, int)):
                    raise Divergence("%s%r returned %r, model %r" % (name, args, rv, mv), self.trace)
            elif type(rv) is not type(mv) or rv != mv:
                raise Divergence("%s%r returned %r, model %r" % (name, args, rv, mv), self.trace)
        self.check_state(name, args)

    def check_state(self, name="state", args=()):
        r, m = self._r, self._m
        rp, rr, rc = r.position, r.remaining, r.chunked_reading_mode
        if rp != m.pos or rr != m.remaining or bool(rc) != bool(m.chunked):
            raise Divergence("after %s%r: real (position,remaining,chunked)=%r, model %r" % (name, args, (rp, rr, rc), (m.pos, m.remaining, m.chunked)), self.trace)
        n = len(m.data)
        if not (0 <= rp <= n) or rr < 0:
            raise Divergence("after %s%r: position %r outside [0,%d] or remaining %r negative" % (name, args, rp, n, rr), self.trace)
        if self.guard is not None and self.guard.bad:
            raise Divergence("guarded buffer: %s" % self.guard.bad[0], self.trace)

    def _call(self, name, *args):
        self._tick(name, args)
        if len(self.modes) < 5000:
            self.modes.append(bool(self._r.chunked_reading_mode))
        ro = _outcome(getattr(self._r, name), *args)
        mo = _outcome(getattr(self._m, name), *args)
        self._compare(name, args, ro, mo)
        if ro[0] == "raise":
            raise {"ValueError": ValueError, "RuntimeError": RuntimeError}[ro[1]]("lock-step: both raised")
        held = getattr(self, "_held", None)
        if held is not None and bytes(held[0]) != held[1]:
            raise Divergence("the bytearray returned by an earlier %s changed from %r to %r during %s%r" % (held[2], held[1], bytes(held[0]), name, args), self.trace)
        self._held = None
        if self.scribble and isinstance(ro[1], bytearray) and self.counter[0] % 2:
            # every other returned bytearray is left alone and looked at again after the next call
            self._held = (ro[1], bytes(ro[1]), name)
        elif self.scribble and isinstance(ro[1], bytearray):
            # the returned bytearray belongs to the caller: whatever the caller does to it (here: overwrite
            # and grow it) must not show in any later read of this or another reader
            out = bytearray(ro[1])
            ro[1][:] = b"\xa5" * len(ro[1])
            ro[1].extend(b"ABC")
            return out
        return ro[1]

    scribble = False

    # -- EoReader API
    def get_byte(self):
        return self._call("get_byte")

    def get_bytes(self, n):
        return self._call("get_bytes", n)

    def get_char(self):
        return self._call("get_char")

    def get_short(self):
        return self._call("get_short")

    def get_three(self):
        return self._call("get_three")

    def get_int(self):
        return self._call("get_int")

    def get_string(self):
        return self._call("get_string")

    def get_encoded_string(self):
        return self._call("get_encoded_string")

    def get_fixed_string(self, length, padded=False):
        return self._call("get_fixed_string", length, padded)

    def get_fixed_encoded_string(self, length, padded=False):
        return self._call("get_fixed_encoded_string", length, padded)

    def next_chunk(self):
        return self._call("next_chunk")

    @property
    def remaining(self):
        self._touch()
        self.check_state("remaining")
        return self._r.remaining

    @property
    def position(self):
        self._touch()
        return self._r.position

    @property
    def chunked_reading_mode(self):
        self._touch()
        return self._r.chunked_reading_mode

    @chunked_reading_mode.setter
    def chunked_reading_mode(self, v):
        # not a fault point (a failing mode switch could not be restored by anyone); counted as an
        # interaction for fuel only
        self._touch()
        self._r.chunked_reading_mode = v
        self._m.chunked_reading_mode = v
        if len(self.trace) < 400:
            self.trace.append(("set_mode", (v,), None))
        self.check_state("set_mode", (v,))

    def slice(self, index=None, length=None):
        self._tick("slice", (index, length))
        args = (index, length)
        ro = _outcome(self._r.slice, *args)
        mo = _outcome(self._m.slice, *args)
        if len(self.trace) < 400:
            self.trace.append(("slice", args, ro[0]))
        if ro[0] != mo[0]:
            raise Divergence("slice%r: real %r, model %r" % (args, ro, mo), self.trace)
        self.check_state("slice", args)
        if ro[0] == "raise":
            raise ValueError("lock-step: both raised")
        child = LockstepReader(ro[1], mo[1], trace=self.trace, fuel=self.fuel, counter=self.counter, guard=self.guard, touch=self.touch)
        child.modes = self.modes
        child.scribble = self.scribble
        child.check_state("slice-child", args)
        return child


class TraceWriter:
    """Duck-typed EoWriter around a real writer: logs calls, counts them, optional fault injection,
    optional reference model in lock step."""

    def __init__(self, real, model=None, fail_at=None):
        self._w = real
        self._m = model
        self.trace = []
        self.calls = 0
        self.fail_at = fail_at
        self.modes = []  # (operation, sanitisation mode of the real writer at that operation) (C15)

    def _call(self, name, *args):
        self.calls += 1
        if self.fail_at is not None and self.calls >= self.fail_at:
            self.fail_at = None
            raise InjectedFault("injected writer fault at call %d (%s)" % (self.calls, name))
        if len(self.trace) < 400:
            self.trace.append((name,) + tuple(a if isinstance(a, (int, str, bool)) else repr(a)[:60] for a in args))
        before = len(self._w)
        if len(self.modes) < 5000:
            self.modes.append((name, bool(self._w.string_sanitization_mode)))
        ro = _outcome(getattr(self._w, name), *args)
        if self._m is not None:
            mo = _outcome(getattr(self._m, name), *args)
            if ro[0] != mo[0]:
                raise Divergence("writer %s%r: real %r, model %r" % (name, args, ro, mo), self.trace)
            if bytes(self._w.to_bytearray()[before:]) != bytes(self._m.data[before:]) or len(self._w) != len(self._m):
                raise Divergence("writer %s%r appended %s, model %s" % (name, args, bytes(self._w.to_bytearray()[before:]).hex(), bytes(self._m.data[before:]).hex()), self.trace)
        if ro[0] == "raise":
            raise ValueError("writer rejected %s%r" % (name, args))
        return None

    def add_byte(self, v):
        self._call("add_byte", v)

    def add_bytes(self, v):
        self._call("add_bytes", v)

    def add_char(self, v):
        self._call("add_char", v)

    def add_short(self, v):
        self._call("add_short", v)

    def add_three(self, v):
        self._call("add_three", v)

    def add_int(self, v):
        self._call("add_int", v)

    def add_string(self, v):
        self._call("add_string", v)

    def add_encoded_string(self, v):
        self._call("add_encoded_string", v)

    def add_fixed_string(self, s, length, padded=False):
        self._call("add_fixed_string", s, length, padded)

    def add_fixed_encoded_string(self, s, length, padded=False):
        self._call("add_fixed_encoded_string", s, length, padded)

    @property
    def string_sanitization_mode(self):
        return self._w.string_sanitization_mode

    @string_sanitization_mode.setter
    def string_sanitization_mode(self, v):
        self.calls += 1
        self._w.string_sanitization_mode = v
        if self._m is not None:
            self._m.string_sanitization_mode = v
        if len(self.trace) < 400:
            self.trace.append(("set_sanitize", v))

    def __len__(self):
        return len(self._w)

    def to_bytearray(self):
        return self._w.to_bytearray()
