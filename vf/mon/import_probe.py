"""Fresh-interpreter probe: import the staged package and check every declared type.
argv: pkg_parent decl_json_path ; prints one JSON line {ok, problems: [...], checked: n}"""
import importlib
import json
import sys


def main():
    pkg_parent, decl_path = sys.argv[1:3]
    decls = json.load(open(decl_path))
    sys.path.insert(0, pkg_parent)
    problems = []
    checked = 0
    try:
        eolib = importlib.import_module("eolib")
    except BaseException as e:
        print(json.dumps({"ok": False, "problems": ["import eolib failed: %s: %s" % (type(e).__name__, e)], "checked": 0}))
        return
    Packet = None
    try:
        Packet = importlib.import_module("eolib.protocol.net.packet").Packet
    except BaseException as e:
        problems.append("eolib.protocol.net.packet: %r" % e)
    import enum
    import inspect

    for d in decls:
        name, path, kind, module = d["name"], d["path"], d["kind"], d["module"]
        checked += 1
        try:
            mod = importlib.import_module(module)
        except BaseException as e:
            problems.append("%s: module %s not importable: %r" % (name, module, e))
            continue
        C = getattr(mod, name, None)
        if not inspect.isclass(C) or C.__module__ != module:
            problems.append("%s: not a class defined in %s (got %r)" % (name, module, C))
            continue
        pub = "eolib.protocol" + ("." + path.replace("/", ".") if path else "")
        for where in (pub, "eolib", "eolib.protocol._generated" + ("." + path.replace("/", ".") if path else "")):
            try:
                m = importlib.import_module(where)
                if getattr(m, name, None) is not C:
                    problems.append("%s: %s.%s is %r, not the class defined in %s" % (name, where, name, getattr(m, name, None), module))
            except BaseException as e:
                problems.append("%s: %s not importable: %r" % (name, where, e))
        if kind == "enum":
            if not (issubclass(C, enum.IntEnum)):
                problems.append("%s: not an IntEnum" % name)
            for mname, ordinal in d["members"]:
                mem = getattr(C, mname, None)
                if mem is None or int(mem) != ordinal or not isinstance(mem, C):
                    problems.append("%s.%s missing or != %d" % (name, mname, ordinal))
            if len(list(C)) != len(d["members"]):
                problems.append("%s: %d members, %d declared" % (name, len(list(C)), len(d["members"])))
        elif kind == "packet":
            if Packet is None or not issubclass(C, Packet):
                problems.append("%s: does not subclass Packet" % name)
        if kind in ("struct", "packet"):
            for meth in ("serialize", "deserialize"):
                if not callable(getattr(C, meth, None)):
                    problems.append("%s: no %s" % (name, meth))
    print(json.dumps({"ok": not problems, "problems": problems[:20], "checked": checked}))


if __name__ == "__main__":
    main()
