"""sys.monitoring helpers (CPython 3.12): source-free failpoints raised from LINE callbacks inside
generated methods, and line coverage.  Lines inside `finally:` clauses are never failpoints - an
exception thrown into the restoring statement itself would model an asynchronous interrupt, not a
failing validation / reader / writer."""
import ast
import sys

TOOL = 4


class LineFaults:
    def __init__(self, root_dir, exc_factory):
        self.root = root_dir
        self.exc_factory = exc_factory
        self.count = 0
        self.target = None
        self.fired_at = None
        self.active = False
        self._finally = {}
        self.lines_seen = set()

    def _finally_lines(self, filename):
        if filename in self._finally:
            return self._finally[filename]
        lines = set()
        try:
            tree = ast.parse(open(filename, encoding="utf-8").read())
            for node in ast.walk(tree):
                if isinstance(node, ast.Try) and node.finalbody:
                    lo = node.finalbody[0].lineno
                    hi = max(getattr(n, "end_lineno", lo) or lo for n in node.finalbody)
                    lines.update(range(lo, hi + 1))
        except Exception:
            pass
        self._finally[filename] = lines
        return lines

    def _cb(self, code, line):
        fn = code.co_filename
        if not fn.startswith(self.root):
            return sys.monitoring.DISABLE
        if not self.active:
            return None
        if code.co_name not in ("serialize", "deserialize", "__init__"):
            return None
        if line in self._finally_lines(fn):
            return None
        self.count += 1
        if len(self.lines_seen) < 20000:
            self.lines_seen.add((fn[len(self.root):], line))
        if self.target is not None and self.count == self.target:
            self.fired_at = (fn[len(self.root):], line, code.co_name)
            self.target = None
            raise self.exc_factory("injected failpoint at %s:%d" % (fn[len(self.root):], line))
        return None

    def __enter__(self):
        m = sys.monitoring
        try:
            m.use_tool_id(TOOL, "vf-failpoints")
        except ValueError:
            m.free_tool_id(TOOL)
            m.use_tool_id(TOOL, "vf-failpoints")
        m.register_callback(TOOL, m.events.LINE, self._cb)
        m.set_events(TOOL, m.events.LINE)
        m.restart_events()
        return self

    def __exit__(self, *a):
        m = sys.monitoring
        m.set_events(TOOL, 0)
        m.register_callback(TOOL, m.events.LINE, None)
        m.free_tool_id(TOOL)
        return False

    def run(self, fn, target=None):
        """Run fn() with line counting on; raise at the target-th line event if given. -> events counted."""
        self.count = 0
        self.target = target
        self.fired_at = None
        self.active = True
        try:
            return fn()
        finally:
            self.active = False
