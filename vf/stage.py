"""Staging the real code from the repository's current working tree.

shim():  import the hand-written runtime modules (eolib.data / encrypt / packet /
         protocol.protocol_enum_meta / protocol.serialization_error) without executing the two
         aggregating __init__ files that need the generated package.
full():  write a spec tree, copy src/eolib into scratch, run the repository's generator on the
         tree and import the real package from scratch.
Nothing is ever written under the repository.
"""
import atexit
import contextlib
import importlib
import io
import os
import shutil
import sys
import tempfile
import types

REPO = os.environ.get("VERIF_REPO", "/repo")
SRC = os.path.join(REPO, "src", "eolib")

_scratch_dirs = []


def _cleanup():
    for d in _scratch_dirs:
        shutil.rmtree(d, ignore_errors=True)


atexit.register(_cleanup)


def scratch(prefix="vf-"):
    d = tempfile.mkdtemp(prefix=prefix)
    _scratch_dirs.append(d)
    return d


def drop(d):
    shutil.rmtree(d, ignore_errors=True)
    if d in _scratch_dirs:
        _scratch_dirs.remove(d)


def purge(prefix="eolib"):
    for k in [k for k in sys.modules if k == prefix or k.startswith(prefix + ".")]:
        del sys.modules[k]
    importlib.invalidate_caches()


class Shim(types.SimpleNamespace):
    pass


def shim():
    """Import the hand-written half from REPO/src. Returns a namespace of modules."""
    purge("eolib")
    for name, path in (("eolib", SRC), ("eolib.protocol", os.path.join(SRC, "protocol"))):
        m = types.ModuleType(name)
        m.__path__ = [path]
        m.__package__ = name
        sys.modules[name] = m
    ns = Shim()
    ns.data = importlib.import_module("eolib.data")
    ns.limits = importlib.import_module("eolib.data.eo_numeric_limits")
    ns.numbers = importlib.import_module("eolib.data.number_encoding_utils")
    ns.strings = importlib.import_module("eolib.data.string_encoding_utils")
    ns.reader = importlib.import_module("eolib.data.eo_reader")
    ns.writer = importlib.import_module("eolib.data.eo_writer")
    ns.encrypt = importlib.import_module("eolib.encrypt")
    ns.encryption_utils = importlib.import_module("eolib.encrypt.encryption_utils")
    ns.verification = importlib.import_module("eolib.encrypt.server_verification_utils")
    ns.packet = importlib.import_module("eolib.packet")
    ns.sequence_start = importlib.import_module("eolib.packet.sequence_start")
    ns.sequencer = importlib.import_module("eolib.packet.packet_sequencer")
    ns.enum_meta = importlib.import_module("eolib.protocol.protocol_enum_meta")
    ns.serialization_error = importlib.import_module("eolib.protocol.serialization_error")
    ns.EoReader = ns.reader.EoReader
    ns.EoWriter = ns.writer.EoWriter
    return ns


_generator_cls = None


def generator_class():
    """The repository's ProtocolCodeGenerator (imported once per process from REPO)."""
    global _generator_cls
    if _generator_cls is None:
        for k in [k for k in sys.modules if k == "protocol_code_generator" or k.startswith("protocol_code_generator.")]:
            del sys.modules[k]
        if REPO not in sys.path:
            sys.path.insert(0, REPO)
        mod = importlib.import_module("protocol_code_generator.generate.code_generator")
        _generator_cls = mod.ProtocolCodeGenerator
    return _generator_cls


def write_tree(root, files):
    """files: {relative_dir: xml_text}; writes <root>/<dir>/protocol.xml."""
    for rel, text in files.items():
        d = os.path.join(root, rel) if rel else root
        os.makedirs(d, exist_ok=True)
        with open(os.path.join(d, "protocol.xml"), "w", encoding="utf-8") as f:
            f.write(text)


def run_generator(xml_root, out_root, spelling="absolute", prior_files=None, files=None):
    """Run the real generator; returns (ok, exception_or_None, captured_stdout).
    spelling: how the two roots are written - 'absolute', 'dot' (input root = working directory, given as '.'),
    'relative' (both relative to the working directory).
    prior_files: an earlier revision of the specification; the same generator instance reads it first (into a
    throw-away output directory, whether it likes it or not), then the files on disk are replaced by `files`."""
    from pathlib import Path

    gen = generator_class()
    buf = io.StringIO()
    cwd = os.getcwd()
    try:
        with contextlib.redirect_stdout(buf):
            if prior_files is not None:
                write_tree(xml_root, prior_files)
                g = gen(Path(xml_root))
                try:
                    g.generate(Path(out_root + ".earlier"))
                except Exception:
                    pass
                shutil.rmtree(out_root + ".earlier", ignore_errors=True)
                write_tree(xml_root, files)
                g.generate(Path(out_root))
            elif spelling == "dot":
                os.chdir(xml_root)
                gen(Path(".")).generate(Path(out_root))
            elif spelling == "relative":
                os.chdir(os.path.dirname(xml_root))
                gen(Path(os.path.basename(xml_root))).generate(Path(os.path.relpath(out_root)))
            else:
                gen(Path(xml_root)).generate(Path(out_root))
        return True, None, buf.getvalue()
    except Exception as e:  # the generator signals every rejection with an exception
        return False, e, buf.getvalue()
    finally:
        os.chdir(cwd)


class Staged:
    """A generated + imported package living in scratch."""

    def __init__(self, root, pkg_parent):
        self.root = root
        self.pkg_parent = pkg_parent  # directory containing eolib/
        self.eolib = None

    def module(self, dotted):
        return importlib.import_module(dotted)

    def close(self):
        purge("eolib")
        if self.pkg_parent in sys.path:
            sys.path.remove(self.pkg_parent)
        drop(self.root)


def copy_static_package(dst_parent):
    dst = os.path.join(dst_parent, "eolib")
    shutil.copytree(
        SRC, dst,
        ignore=shutil.ignore_patterns("__pycache__", "_generated", "*.pyc"),
    )
    return dst


def full(files, do_import=True, spelling="absolute", stale_output=False, prior_files=None, earlier_output_files=None, below=None):
    """Stage a spec tree: returns (Staged or None, ok, error, stdout).
    below: name of an extra directory level everything is staged under (a checkout cloned into a directory called
    'eolib', say)."""
    root = scratch("vf-full-")
    base = os.path.join(root, below) if below else root
    xml_root = os.path.join(base, "xml")
    os.makedirs(xml_root)
    write_tree(xml_root, files)
    pkg_parent = os.path.join(base, "pkg")
    os.makedirs(pkg_parent)
    pkg = copy_static_package(pkg_parent)
    gen_dir = os.path.join(pkg, "protocol", "_generated")
    if earlier_output_files is not None:
        # the output directory still holds what an earlier revision of the specification (same types, some of them
        # in other directories) was generated into
        prev_root = os.path.join(base, "xml-earlier")
        os.makedirs(prev_root)
        write_tree(prev_root, earlier_output_files)
        run_generator(prev_root, gen_dir)
    ok, err, out = run_generator(xml_root, gen_dir, spelling, prior_files, files)
    if ok and stale_output:
        # the output directory is not empty: every file of the run above is replaced by something of the same
        # size but other content (what an earlier version of the spec with equally long names leaves behind),
        # then the generator runs again over it
        for d, _dirs, fs in os.walk(gen_dir):
            for f in fs:
                p = os.path.join(d, f)
                data = open(p, "rb").read()
                open(p, "wb").write(data.swapcase())
        ok, err, out = run_generator(xml_root, gen_dir, spelling)
    st = Staged(root, pkg_parent)
    if not ok:
        st.close()
        return None, False, err, out
    if do_import:
        purge("eolib")
        sys.path.insert(0, pkg_parent)
        try:
            st.eolib = importlib.import_module("eolib")
        except BaseException as e:
            st.close()
            return None, False, e, out
    return st, True, None, out
