"""Shared campaign plumbing for the properties that quantify over specifications (C01-C03, C14-C19):
tree selection per shard, staging of a spec through the real generator, and common imports."""
import os
import random

from vf import stage
from vf.gen import spec as S
from vf.gen.specgen import SpecGen
from vf.mon.realobj import Bridge
from vf.ref import grammar
from vf.ref.interp import Interp

ROOT = os.path.dirname(os.path.dirname(os.path.abspath(__file__)))
CORPUS_DIR = os.path.join(ROOT, "corpus", "xml")


def corpus_files():
    files = {}
    for root, _dirs, fs in os.walk(CORPUS_DIR):
        if "protocol.xml" in fs:
            rel = os.path.relpath(root, CORPUS_DIR)
            rel = "" if rel == "." else rel.replace(os.sep, "/")
            files[rel] = open(os.path.join(root, "protocol.xml"), encoding="utf-8").read()
    return files


def corpus_spec():
    return S.parse(corpus_files())


# ---- tree -2: field names equal to the local variables of the generated deserializers (known finding 12).
# Hand-written, never produced by SpecGen's name pools, run by C01 and C15 only; a violation on one of these
# classes is reported under the mechanism 'field-name-captures-generated-local:<name>'.
CAPTURE = {"LoopCapture": "i", "ReaderCapture": "reader", "StartCapture": "reader_start_position", "ModeCapture": "old_chunked_reading_mode",
           "LengthCapture": "ARRAY_length", "CountCapture": "ARRAY_count", "SizeCapture": "ARRAY_size"}
CAPTURE_XML = """<protocol>
    <struct name="LoopCapture">
        <field name="i" type="char"/>
        <length name="count" type="char"/>
        <array name="items" type="short" length="count"/>
        <field name="tail" type="char"/>
    </struct>
    <struct name="ReaderCapture">
        <field name="reader" type="char"/>
        <field name="other" type="short"/>
    </struct>
    <struct name="StartCapture">
        <field name="reader_start_position" type="char"/>
        <field name="other" type="short"/>
    </struct>
    <struct name="ModeCapture">
        <chunked>
            <field name="old_chunked_reading_mode" type="char"/>
            <break/>
            <field name="text" type="string"/>
        </chunked>
    </struct>
    <struct name="LengthCapture">
        <field name="ids_length" type="char"/>
        <array name="ids" type="short"/>
    </struct>
    <struct name="CountCapture">
        <field name="ids_count" type="char"/>
        <array name="ids" type="short"/>
    </struct>
    <struct name="SizeCapture">
        <field name="ids_size" type="char"/>
        <field name="ids_len" type="char"/>
        <field name="ids_data" type="char"/>
        <array name="ids" type="short"/>
    </struct>
    <struct name="NoCapture">
        <field name="index" type="char"/>
        <field name="result" type="char"/>
        <length name="data" type="char"/>
        <array name="writer" type="short" length="data"/>
    </struct>
    <struct name="Hollow">
    </struct>
    <struct name="Husk">
        <comment>Nothing but a struct that writes nothing, then a dummy: one byte on the wire wherever the struct is used</comment>
        <field name="hollow" type="Hollow"/>
        <dummy type="char">0</dummy>
    </struct>
    <struct name="Crate">
        <field name="tag" type="char"/>
        <field name="husk" type="Husk"/>
        <field name="tail" type="char"/>
        <array name="husks" type="Husk" length="2"/>
        <field name="end" type="short"/>
    </struct>
</protocol>
"""


def capture_spec():
    files = {k: "<protocol>\n</protocol>\n" for k in ("", "map", "net/client", "net/server", "pub", "pub/server")}
    files["net"] = """<protocol>
    <enum name="PacketFamily" type="byte">
        <value name="Connection">1</value>
        <value name="Init">255</value>
    </enum>
    <enum name="PacketAction" type="byte">
        <value name="Request">1</value>
        <value name="Init">255</value>
    </enum>
</protocol>
"""
    files[""] = CAPTURE_XML
    return S.parse(files)


class CaptureRec:
    """Proxy for a Rec: violations on the capture classes of tree -2 get the known finding's mechanism."""

    def __init__(self, rec, ti):
        self._rec, self._ti = rec, ti

    def violation(self, mech, msg, case=None, **kw):
        cls = (case or {}).get("class")
        if self._ti == -2 and cls in CAPTURE:
            msg = "[%s] %s" % (mech, msg)
            mech = "field-name-captures-generated-local:" + CAPTURE[cls]
        return self._rec.violation(mech, msg, case, **kw)

    def __getattr__(self, name):
        return getattr(self._rec, name)


def make_spec(seed, index, **opts):
    """Tree `index` of campaign `seed`: -1 is the hand-written corpus, -2 the capture tree, others come from SpecGen."""
    if index == -2:
        return capture_spec(), {"capture": 1}
    if index < 0:
        return corpus_spec(), {"corpus": 1}
    rng = random.Random("spec-%d-%d" % (seed, index))
    opts.setdefault("wu_bias", index % 2 == 0)
    opts.setdefault("allow_empty", index % 5 == 3)
    opts.setdefault("shuffle_files", index % 3 == 2)
    sg = SpecGen(rng, **opts)
    sp = sg.generate()
    return sp, sg.features


def tree_shards(n_trees, per_shard, extra=None, capture=False):
    """[-1 (corpus), 0..n_trees-1] split into shards."""
    idx = list(range(n_trees))
    out = [dict({"trees": [-1]}, **(extra or {}))]  # the hand-written tree gets a shard of its own (it is given more values)
    if capture:
        out.append(dict({"trees": [-2]}, **(extra or {})))
    for i in range(0, len(idx), per_shard):
        d = {"trees": idx[i:i + per_shard]}
        if extra:
            d.update(extra)
        out.append(d)
    return out


_WIDER = {"byte": "short", "char": "short", "short": "three", "three": "int", "int": "three"}
_OTHER = {"byte": "char", "char": "short", "short": "three", "three": "int", "int": "char", "string": "encoded_string", "encoded_string": "string"}


def earlier_revision(spec):
    """What the same specification may have looked like one revision ago: every enum on another underlying type
    with all ordinals one higher, every integer / string field on another wire type.  Same names, same files; it
    need not be well-formed (the generator instance that read it is used again for the revision under test)."""
    sp = spec.clone()

    def visit(body):
        for ins in body:
            if ins.kind in ("field", "array", "length", "dummy") and getattr(ins, "type", None) in _OTHER:
                ins.type = _OTHER[ins.type]
            elif ins.kind == "chunked":
                visit(ins.body)
            elif ins.kind == "switch":
                for c in ins.cases:
                    visit(c.body)
    for f in sp.files.values():
        for e in f.enums:
            e.type = _WIDER.get(e.type, e.type)
            e.values[:] = [(v[0], v[1] + 1) + tuple(v[2:]) for v in e.values]
        for d in list(f.structs) + list(f.packets):
            visit(d.body)
    return sp


def moved_revision(spec):
    """The same types living in other directories (map <-> pub, net/client <-> net/server structs and enums swapped),
    or None when that is not a well-formed tree."""
    moved = spec.clone()
    for a, b in (("map", "pub"), ("net/client", "net/server")):
        fa, fb = moved.files[a], moved.files[b]
        fa.enums, fb.enums = fb.enums, fa.enums
        fa.structs, fb.structs = fb.structs, fa.structs
    bad_names = any(n.lower() in {"": {"net", "map", "pub"}, "net": {"client", "server"}, "pub": {"server"}}.get(p, ()) for n, (d, p) in moved.types().items())
    return None if bad_names or grammar.check(moved) else moved


def broken_revision(spec):
    """A revision of the same files the generator gives up on half-way: an instruction of an unknown type at the end of
    every chunked section and every switch case (or, failing those, of the last struct).  The run fails inside a
    nested construct; the instance - and the process - that saw it fail is used again for the revision under test."""
    sp = spec.clone()
    hit = [0]

    def visit(body):
        for ins in list(body):
            if ins.kind == "chunked":
                visit(ins.body)
                ins.body.append(S.Field("zz_broken%d" % hit[0], "NoSuchType"))
                hit[0] += 1
            elif ins.kind == "switch":
                for c in ins.cases:
                    visit(c.body)
                    c.body.append(S.Field("zz_broken%d" % hit[0], "NoSuchType"))
                    hit[0] += 1
    last = None
    for f in sp.files.values():
        for d in list(f.structs) + list(f.packets):
            visit(d.body)
            last = d
    if not hit[0] and last is not None:
        last.body.append(S.Field("zz_broken", "NoSuchType"))
    return sp


class Tree:
    """A spec staged through the real generator and imported (context manager).  Every other tree (by content) is
    generated by a generator instance that has read an earlier revision of the same files before."""

    def __init__(self, spec, explicit=False, reuse=None):
        self.spec = spec
        self.files = S.render(spec, explicit=explicit)
        self.staged = None
        self.error = None
        import zlib

        h = zlib.crc32(repr(sorted(self.files.items())).encode())
        self.generator_reused = (h % 2 == 0) if reuse is None else reuse
        # the revision read before: alternately an earlier, well-formed one and one the generator fails on
        self.prior_failed = self.generator_reused and h % 4 == 2
        self.prior = S.render((broken_revision if self.prior_failed else earlier_revision)(spec), explicit=explicit) if self.generator_reused else None

    def __enter__(self):
        st, ok, err, out = stage.full(self.files, prior_files=self.prior)
        self.stdout = out
        if not ok:
            self.error = err
            return self
        self.staged = st
        self.interp = Interp(self.spec)
        self.bridge = Bridge(self.interp)
        import importlib

        self.EoWriter = importlib.import_module("eolib.data.eo_writer").EoWriter
        self.EoReader = importlib.import_module("eolib.data.eo_reader").EoReader
        self.SerializationError = importlib.import_module("eolib.protocol.serialization_error").SerializationError
        return self

    def __exit__(self, *a):
        if self.staged is not None:
            self.staged.close()
        return False


def certified(spec):
    """Grammar certificate for a generated spec (list of rule violations; empty = valid)."""
    return grammar.check(spec)


def record_features(rec, feats):
    for k, v in feats.items():
        rec.count("feature:" + k, v)


def xml_of(tree_or_spec):
    files = tree_or_spec.files if hasattr(tree_or_spec, "files") and isinstance(tree_or_spec.files, dict) and all(isinstance(v, str) for v in tree_or_spec.files.values()) else S.render(tree_or_spec)
    return files


def refs_into_client_server(spec):
    """The shape behind the known C18/C20 finding: a generated net/client or net/server package gets
    imported before the hand-written eolib.protocol.net package has run.  That happens when a type of a
    directory that eolib/protocol/__init__.py reaches first (root, map, net) refers - directly, or through
    other directories whose generated __init__ it thereby triggers - to a type declared in net/client or
    net/server.  Returns the chain of directories, or []."""
    home = {n: p for n, (d, p) in spec.types().items()}
    refs = {p: set() for p in spec.files}
    for path, f in spec.files.items():
        for d in list(f.structs) + list(f.packets):
            def visit(ins, body, i, depth, path=path):
                if ins.kind in ("field", "array") and ins.type:
                    b = home.get(ins.type.split(":")[0])
                    if b is not None and b != path:
                        refs[path].add(b)
            S.walk(d.body, visit)
    early = {"": None, "map": None, "net": None}
    todo = list(early)
    while todo:
        a = todo.pop()
        for b in sorted(refs.get(a, ())):
            if b in ("net/client", "net/server"):
                chain = [b, a]
                while early.get(chain[-1]) is not None:
                    chain.append(early[chain[-1]])
                return list(reversed(chain))
            if b not in early:
                early[b] = a
                todo.append(b)
    return []


def directory_cycle(spec):
    """Directory-level import dependencies of the generated package: a *reference edge* A -> B for every
    type reference from a declaration in directory A to one in directory B, and a *parent edge*
    A -> parent(A) (importing a sub-package runs its parent's __init__, which star-imports all of the
    parent's modules).  A module of directory A can be re-entered while it is still executing when execution leaves A
    through a reference and comes back through another reference into A.  Returns such a pair, or None."""
    home = {n: p for n, (d, p) in spec.types().items()}
    refs = set()
    succ = {p: set() for p in spec.files}
    for path, f in spec.files.items():
        if path:
            succ[path].add(path.rsplit("/", 1)[0] if "/" in path else "")
        for d in list(f.structs) + list(f.packets):
            def visit(ins, body, i, depth, path=path):
                if ins.kind in ("field", "array") and ins.type:
                    b = home.get(ins.type.split(":")[0])
                    if b is not None and b != path:
                        refs.add((path, b))
                        succ[path].add(b)
            S.walk(d.body, visit)

    def reach(a):
        seen, todo = {a}, [a]
        while todo:
            u = todo.pop()
            for v in succ.get(u, ()):
                if v not in seen:
                    seen.add(v)
                    todo.append(v)
        return seen
    R = {p: reach(p) for p in succ}
    # execution leaves directory a through a reference into b and comes back into a through another
    # reference (c, a) issued from something reachable from b
    for (a, b) in sorted(refs):
        for (c, d) in sorted(refs):
            if d == a and (a, b) != (c, d) and c in R[b]:
                return [(a, b), (c, d)]
    return None


def import_hazards(spec):
    """Spec shapes behind the two known import-layout findings (C18 / C20)."""
    out = []
    if refs_into_client_server(spec):
        out.append("refs-into-net-client-or-server-from-earlier-package")
    if directory_cycle(spec):
        out.append("directory-level-import-cycle")
    return out
