"""Wire-unambiguous (WU) domain of C01, decided statically per class from the spec AST.

classify(interp, class_name) -> (ok, reason).  The rules are C01's quantifier made precise
(DESIGN 4.4 / Appendix A): unbounded items only at the end of a segment or chunk; an unsized
delimited array only as the last item of the message; dummy only in otherwise-empty bodies; optional
items last (and nothing after a body that ends in them); no switch inside an optional tail.
0xFF-capable data ahead of / inside chunked sections is a constraint on values (ValueGen 'wu')."""


class State:
    def __init__(self, chunked=False, opt_tail=False):
        self.chunked = chunked
        self.open = False       # an unbounded item is open in the current chunk: only <break/> may follow
        self.opt_tail = opt_tail  # optional items emitted: only optional items or <break/> may follow
        self.terminal = False   # the message must end here
        self.bad = None


class WU:
    def __init__(self, interp):
        self.it = interp
        self.memo = {}

    def struct(self, name):
        """-> (ok, open_end, terminal, reason)"""
        if name in self.memo:
            return self.memo[name]
        self.memo[name] = (False, True, False, "recursive")
        decl = self.it.types[name][0]
        st = State()
        self.scan(decl.body, st)
        res = (st.bad is None, st.open or st.opt_tail, st.terminal, st.bad)
        self.memo[name] = res
        return res

    def elem_info(self, tstr):
        """-> (ok, open, terminal) of an array element / field type (unsized strings as in arrays)."""
        t = self.it.resolve(tstr)
        if t.kind in ("int", "bool", "enum"):
            return True, False, False
        if t.kind in ("str", "estr", "blob"):
            return True, True, False
        ok, op, term, _r = self.struct(t.name)
        return ok, op, term

    def scan(self, body, st):
        # "otherwise empty" is meant on the wire: members that never write a byte (fields of structs of size 0) may precede a dummy
        only = len(body) == 1 or (len(body) > 1 and body[-1].kind == "dummy" and all(
            i.kind == "field" and not i.optional and i.name is not None and self.it.resolve(i.type).kind == "struct" and self.it.fixed_size(i.type) == 0 for i in body[:-1]))
        for ins in body:
            if st.bad:
                return
            k = ins.kind
            if st.terminal:
                st.bad = "item after an unsized delimited array"
                return
            if st.open and k != "break":
                # a nested <chunked> is allowed to start with the closing break
                if k == "chunked" and ins.body and ins.body[0].kind == "break":
                    pass
                else:
                    st.bad = "item after an unbounded item in the same chunk"
                    return
            if k == "field":
                t = self.it.resolve(ins.type)
                if t.kind in ("str", "estr") and ins.length is None:
                    st.open = True
                elif t.kind == "blob":
                    st.open = True
                elif t.kind == "struct":
                    ok, op, term, why = self.struct(t.name)
                    if not ok:
                        st.bad = "field of non-WU struct %s (%s)" % (t.name, why)
                        return
                    st.open = st.open or op
                    st.terminal = st.terminal or term
                if ins.optional:
                    st.opt_tail = True
            elif k == "array":
                ok, op, term = self.elem_info(ins.type)
                if not ok or term:
                    st.bad = "array of non-WU / terminal element type"
                    return
                if ins.delimited:
                    if ins.length is None:
                        st.terminal = True
                    elif not ins.trailing and op:
                        st.open = True
                else:
                    if op:
                        st.bad = "non-delimited array of open-ended elements"
                        return
                    if ins.length is None:
                        st.open = True
                if ins.optional:
                    st.opt_tail = True
            elif k == "length":
                if ins.optional:
                    st.opt_tail = True
            elif k == "dummy":
                if not only:
                    st.bad = "dummy in a body that is not otherwise empty"
                    return
            elif k == "switch":
                if st.opt_tail:
                    st.bad = "switch inside an optional tail"
                    return
                any_open = any_term = False
                for c in ins.cases:
                    cs = State(st.chunked, False)
                    self.scan(c.body, cs)
                    if cs.bad:
                        st.bad = "case: " + cs.bad
                        return
                    any_open = any_open or cs.open or cs.opt_tail
                    any_term = any_term or cs.terminal
                st.open = st.open or any_open
                st.terminal = st.terminal or any_term
            elif k == "chunked":
                was = st.chunked
                st.chunked = True
                self.scan(ins.body, st)
                st.chunked = was
            elif k == "break":
                st.open = False
                st.opt_tail = False


def classify(interp, name, cache=None):
    w = cache if cache is not None else WU(interp)
    body = interp.bodies[name]
    st = State()
    w.scan(body, st)
    return st.bad is None, st.bad
