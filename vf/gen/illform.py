"""One-rule spec mutants for C17: each operator takes a valid spec and one eligible site and returns a
spec that breaks exactly one rule of the protocol grammar.  Whether the mutant really breaks the
intended rule is certified by the independent grammar model (vf/ref/grammar.py), not here."""
import copy

from vf.gen import spec as S


class Site:
    __slots__ = ("body", "index", "ins", "chunked", "case_depth", "opt", "names", "lens", "owner", "placement", "outer_lens", "outer_names")

    def __init__(self, **kw):
        for k, v in kw.items():
            setattr(self, k, v)


def walk_sites(spec):
    """Yield a Site for every instruction position of every struct/packet body (context = before it).
    A final Site with ins=None marks the end of each body (insertion point)."""
    for path, f in spec.files.items():
        for d in list(f.structs) + list(f.packets):
            owner = (path, d)
            yield from _walk(d.body, owner, False, 0, False, {}, {}, {}, {})


def _walk(body, owner, chunked, case_depth, opt, names, lens, outer_lens, outer_names, state=None):
    st = state if state is not None else {"opt": opt}
    for i, ins in enumerate(body):
        placement = ("C" if case_depth else "T") + ("K" if chunked else "")
        yield Site(body=body, index=i, ins=ins, chunked=chunked, case_depth=case_depth, opt=st["opt"], names=dict(names), lens=dict(lens),
                   owner=owner, placement=placement, outer_lens=outer_lens, outer_names=outer_names)
        k = ins.kind
        if k in ("field", "array", "length"):
            if ins.name is not None:
                names[ins.name] = ins
            if k == "length":
                lens[ins.name] = False
            elif isinstance(ins.length, str):
                lens[ins.length] = True
            if ins.optional:
                st["opt"] = True
        elif k == "switch":
            o = st["opt"]
            for c in ins.cases:
                cst = {"opt": st["opt"]}
                yield from _walk(c.body, owner, chunked, case_depth + 1, st["opt"], {}, {}, dict(lens), dict(names), cst)
                o = o or cst["opt"]
            st["opt"] = o
        elif k == "chunked":
            yield from _walk(ins.body, owner, True, case_depth, st["opt"], names, lens, outer_lens, outer_names, st)
        elif k == "break":
            st["opt"] = False
    placement = ("C" if case_depth else "T") + ("K" if chunked else "")
    yield Site(body=body, index=len(body), ins=None, chunked=chunked, case_depth=case_depth, opt=st["opt"], names=dict(names), lens=dict(lens),
               owner=owner, placement=placement, outer_lens=outer_lens, outer_names=outer_names)


def _has_dummy(body):
    return any(i.kind == "dummy" for i in body)


def _fresh(names, base="zz_new"):
    n = base
    k = 0
    while n in names:
        k += 1
        n = "%s%d" % (base, k)
    return n


# Each operator: (rule, name, eligible(site, spec) -> bool, mutate(site, spec) -> None)
def _ops():
    ops = []

    def op(rule, name):
        def deco(pair):
            ops.append((rule, name, pair[0], pair[1]))
            return pair
        return deco

    F, A, L = S.Field, S.Array, S.Length

    # ---------------- unknown type
    op("unknown-type", "field-type-unknown")((lambda s, sp: s.ins is not None and s.ins.kind == "field",
                                              lambda s, sp: setattr(s.ins, "type", "NoSuchType7")))
    op("unknown-type", "array-type-unknown")((lambda s, sp: s.ins is not None and s.ins.kind == "array",
                                              lambda s, sp: setattr(s.ins, "type", "NoSuchType7")))
    op("unknown-type", "length-type-unknown")((lambda s, sp: s.ins is not None and s.ins.kind == "length",
                                               lambda s, sp: setattr(s.ins, "type", "NoSuchType7")))
    op("unknown-type", "dummy-type-unknown")((lambda s, sp: s.ins is not None and s.ins.kind == "dummy",
                                              lambda s, sp: setattr(s.ins, "type", "NoSuchType7")))
    # ---------------- redefined field
    op("redefined-field", "field-renamed-to-earlier")((lambda s, sp: s.ins is not None and s.ins.kind in ("field", "array", "length") and s.ins.name is not None and s.names and not (s.ins.kind == "length" and s.lens.get(s.ins.name) is not None),
                                                       lambda s, sp: _rename_to_earlier(s)))
    # ---------------- length references
    op("bad-length-reference", "length-unknown-name")((lambda s, sp: s.ins is not None and s.ins.kind in ("field", "array") and isinstance(s.ins.length, str),
                                                       lambda s, sp: setattr(s.ins, "length", "no_such_length")))
    # a numeric literal is digits only: a sign, an underscore or a blank makes it a (dangling) name
    op("bad-length-reference", "length-literal-with-sign")((lambda s, sp: s.ins is not None and s.ins.kind in ("field", "array") and isinstance(s.ins.length, int) and getattr(s.ins, "value", None) is None,
                                                            lambda s, sp: setattr(s.ins, "length", ("+%d", "-%d")[s.index % 2] % max(1, s.ins.length))))
    op("bad-length-reference", "length-literal-with-underscore-or-blank")((lambda s, sp: s.ins is not None and s.ins.kind in ("field", "array") and isinstance(s.ins.length, int) and getattr(s.ins, "value", None) is None,
                                                                           lambda s, sp: setattr(s.ins, "length", ("1_%d", " %d", "%d ", "0x%d")[s.index % 4] % s.ins.length)))
    op("bad-length-reference", "length-refers-to-plain-field")((lambda s, sp: s.ins is not None and s.ins.kind in ("field", "array") and isinstance(s.ins.length, str) and any(v.kind == "field" for v in s.names.values()),
                                                                lambda s, sp: setattr(s.ins, "length", next(n for n, v in s.names.items() if v.kind == "field"))))
    op("bad-length-reference", "length-defined-later")((lambda s, sp: s.ins is not None and s.ins.kind == "length" and s.index + 1 < len(s.body) and getattr(s.body[s.index + 1], "length", None) == s.ins.name,
                                                        lambda s, sp: _swap(s.body, s.index)))
    op("bad-length-reference", "outer-length-from-case")((lambda s, sp: s.ins is None and s.case_depth > 0 and not s.opt and any(v is False or v is True for v in s.outer_lens.values()) and not _has_dummy(s.body),
                                                          lambda s, sp: s.body.append(A(_fresh(s.names), "char", next(iter(s.outer_lens))))))
    op("length-referenced-twice", "second-reference")((lambda s, sp: s.ins is not None and s.ins.kind in ("field", "array") and isinstance(s.ins.length, str) and s.ins.name is not None,
                                                       lambda s, sp: s.body.insert(s.index + 1, A(_fresh(s.names), "char", s.ins.length, optional=s.ins.optional or s.opt))))
    # ---------------- chunk rules
    op("delimited-outside-chunked", "array-delimited")((lambda s, sp: s.ins is not None and s.ins.kind == "array" and not s.chunked and not s.ins.delimited,
                                                        lambda s, sp: setattr(s.ins, "delimited", True)))
    op("break-outside-chunked", "break-inserted")((lambda s, sp: not s.chunked and not (s.index > 0 and s.body[s.index - 1].kind == "dummy") and not _dummy_before(s),
                                                   lambda s, sp: s.body.insert(s.index, S.Break())))
    # ---------------- optional ordering
    op("required-after-optional", "required-field-after-optional")((lambda s, sp: s.opt and not _dummy_before(s),
                                                                    lambda s, sp: s.body.insert(s.index, F(_fresh(s.names), "char"))))
    op("required-after-optional", "required-array-after-optional")((lambda s, sp: s.opt and not _dummy_before(s),
                                                                    lambda s, sp: s.body.insert(s.index, A(_fresh(s.names), "short", 2))))
    op("required-after-optional", "required-length-after-optional")((lambda s, sp: s.opt and not _dummy_before(s),
                                                                     lambda s, sp: _insert_length_pair(s)))
    # ... where the only optional item so far is a <length>
    op("required-after-optional", "required-field-right-after-first-optional-length")((lambda s, sp: s.index > 0 and s.body[s.index - 1].kind == "length" and s.body[s.index - 1].optional and not _dummy_before(s) and not any(getattr(i, "optional", False) for i in s.body[:s.index - 1]),
                                                                                       lambda s, sp: s.body.insert(s.index, F(_fresh(s.names), "char"))))
    op("required-after-optional", "length-made-optional-before-required-items")((lambda s, sp: s.ins is not None and s.ins.kind == "length" and not s.ins.optional and not s.opt and not _dummy_before(s),
                                                                                 lambda s, sp: _optional_length_then_required(s)))
    op("required-after-optional", "unnamed-after-optional")((lambda s, sp: s.opt and not _dummy_before(s),
                                                             lambda s, sp: s.body.insert(s.index, F(None, "char", value="7"))))
    op("required-after-optional", "optional-flag-dropped-later")((lambda s, sp: s.ins is not None and s.ins.kind in ("field", "array") and s.ins.optional and s.opt,
                                                                  lambda s, sp: setattr(s.ins, "optional", False)))
    # ---------------- dummy
    op("after-dummy", "field-after-dummy")((lambda s, sp: s.ins is not None and s.ins.kind == "dummy",
                                            lambda s, sp: s.body.insert(s.index + 1, F(_fresh(s.names), "char", optional=s.opt))))
    op("after-dummy", "break-after-dummy")((lambda s, sp: s.ins is not None and s.ins.kind == "dummy" and s.chunked,
                                            lambda s, sp: s.body.insert(s.index + 1, S.Break())))
    op("after-dummy", "chunked-after-dummy")((lambda s, sp: s.ins is not None and s.ins.kind == "dummy",
                                              lambda s, sp: s.body.insert(s.index + 1, S.Chunked([F(_fresh(s.names), "string", optional=s.opt)]))))
    op("after-dummy", "second-dummy")((lambda s, sp: s.ins is not None and s.ins.kind == "dummy",
                                       lambda s, sp: s.body.insert(s.index + 1, S.Dummy("char", "3"))))
    # ---------------- literals
    op("unnamed-without-value", "unnamed-literal-dropped")((lambda s, sp: s.ins is not None and s.ins.kind == "field" and s.ins.name is None,
                                                            lambda s, sp: setattr(s.ins, "value", None)))
    op("unnamed-without-value", "dummy-literal-dropped")((lambda s, sp: s.ins is not None and s.ins.kind == "dummy",
                                                          lambda s, sp: setattr(s.ins, "value", None)))
    op("unnamed-without-value", "name-dropped")((lambda s, sp: s.ins is not None and s.ins.kind == "field" and s.ins.name is not None and s.ins.value is None and not s.ins.optional and not _referenced(s),
                                                 lambda s, sp: setattr(s.ins, "name", None)))
    op("hardcoded-wrong-type", "unnamed-int-literal-text")((lambda s, sp: s.ins is not None and s.ins.kind == "field" and s.ins.name is None and s.ins.type.split(":")[0] in ("byte", "char", "short", "three", "int"),
                                                            lambda s, sp: setattr(s.ins, "value", "abc")))
    op("hardcoded-wrong-type", "dummy-int-literal-text")((lambda s, sp: s.ins is not None and s.ins.kind == "dummy" and s.ins.type in ("byte", "char", "short", "three", "int"),
                                                          lambda s, sp: setattr(s.ins, "value", "x1")))
    op("hardcoded-wrong-type", "named-int-literal-text")((lambda s, sp: s.ins is not None and s.ins.kind == "field" and s.ins.name is not None and not s.ins.optional and s.ins.type in ("byte", "char", "short", "three", "int") and not _switched(s),
                                                          lambda s, sp: setattr(s.ins, "value", "abc")))
    op("hardcoded-wrong-type", "named-int-literal-negative")((lambda s, sp: s.ins is not None and s.ins.kind == "field" and s.ins.name is not None and not s.ins.optional and s.ins.type in ("byte", "char", "short", "three", "int") and not _switched(s),
                                                              lambda s, sp: setattr(s.ins, "value", "-1")))
    op("hardcoded-wrong-type", "bool-literal-text")((lambda s, sp: s.ins is not None and s.ins.kind == "field" and not s.ins.optional and s.ins.type.split(":")[0] == "bool",
                                                     lambda s, sp: setattr(s.ins, "value", "yes")))
    op("hardcoded-wrong-type", "unnamed-int-literal-float")((lambda s, sp: s.ins is not None and s.ins.kind == "field" and s.ins.name is None and s.ins.type.split(":")[0] in ("byte", "char", "short", "three", "int"),
                                                             lambda s, sp: setattr(s.ins, "value", "1.5")))
    op("hardcoded-wrong-type", "named-int-literal-hex")((lambda s, sp: s.ins is not None and s.ins.kind == "field" and s.ins.name is not None and not s.ins.optional and s.ins.type in ("byte", "char", "short", "three", "int") and not _switched(s),
                                                         lambda s, sp: setattr(s.ins, "value", "0x10")))
    op("hardcoded-wrong-type", "dummy-bool-literal-text")((lambda s, sp: s.ins is not None and s.ins.kind == "dummy",
                                                           lambda s, sp: (setattr(s.ins, "type", "bool"), setattr(s.ins, "value", "maybe"))))
    op("length-on-non-string", "length-reference-on-non-string")((lambda s, sp: s.ins is not None and s.ins.kind == "field" and s.ins.length is None and s.ins.type in ("byte", "char", "short", "three", "int", "blob", "bool") and s.lens,
                                                                  lambda s, sp: setattr(s.ins, "length", next(iter(s.lens)))))
    op("length-on-non-string", "length-bound-string-retyped-to-int")((lambda s, sp: s.ins is not None and s.ins.kind == "field" and isinstance(s.ins.length, str) and s.ins.type in ("string", "encoded_string"),
                                                                      lambda s, sp: (setattr(s.ins, "type", "short"), setattr(s.ins, "padded", False))))
    op("length-on-non-string", "numeric-length-string-retyped-to-struct")((lambda s, sp: s.ins is not None and s.ins.kind == "field" and isinstance(s.ins.length, int) and s.ins.type in ("string", "encoded_string") and s.ins.value is None and any(not hasattr(d, "values") for d, _p in sp.types().values()),
                                                                           lambda s, sp: (setattr(s.ins, "type", next(n for n, (d, _p) in sp.types().items() if not hasattr(d, "values"))), setattr(s.ins, "padded", False))))
    op("after-dummy", "field-after-container-ending-in-dummy")((lambda s, sp: s.ins is not None and s.ins.kind in ("chunked", "switch") and _ends_in_dummy(s.ins),
                                                                lambda s, sp: s.body.insert(s.index + 1, F(_fresh(s.names), "char", optional=True))))
    op("hardcoded-wrong-length", "string-literal-length")((lambda s, sp: s.ins is not None and s.ins.kind == "field" and not s.ins.optional and s.ins.type in ("string", "encoded_string") and isinstance(s.ins.length, int),
                                                           lambda s, sp: setattr(s.ins, "value", "x" * (s.ins.length + 1))))
    op("hardcoded-wrong-length", "string-literal-shorter")((lambda s, sp: s.ins is not None and s.ins.kind == "field" and not s.ins.optional and s.ins.type in ("string", "encoded_string") and isinstance(s.ins.length, int) and s.ins.length >= 2,
                                                            lambda s, sp: setattr(s.ins, "value", "x" * (s.ins.length - 1))))
    op("hardcoded-wrong-length", "padded-string-literal-shorter")((lambda s, sp: s.ins is not None and s.ins.kind == "field" and not s.ins.optional and s.ins.type in ("string", "encoded_string") and isinstance(s.ins.length, int) and s.ins.length >= 2,
                                                                   lambda s, sp: (setattr(s.ins, "value", "x" * (s.ins.length - 1)), setattr(s.ins, "padded", True))))
    op("hardcoded-wrong-length", "padded-string-literal-longer")((lambda s, sp: s.ins is not None and s.ins.kind == "field" and not s.ins.optional and s.ins.type in ("string", "encoded_string") and isinstance(s.ins.length, int),
                                                                  lambda s, sp: (setattr(s.ins, "value", "x" * (s.ins.length + 2)), setattr(s.ins, "padded", True))))
    op("hardcoded-wrong-length", "string-literal-on-zero-length")((lambda s, sp: s.ins is not None and s.ins.kind == "field" and not s.ins.optional and s.ins.type in ("string", "encoded_string") and isinstance(s.ins.length, int),
                                                                   lambda s, sp: (setattr(s.ins, "value", "xy"), setattr(s.ins, "length", 0), setattr(s.ins, "padded", False))))
    op("hardcoded-wrong-length", "padded-string-literal-on-zero-length")((lambda s, sp: s.ins is not None and s.ins.kind == "field" and not s.ins.optional and s.ins.type in ("string", "encoded_string") and isinstance(s.ins.length, int),
                                                                          lambda s, sp: (setattr(s.ins, "value", "x"), setattr(s.ins, "length", 0), setattr(s.ins, "padded", True))))
    op("hardcoded-non-basic", "literal-on-struct-or-enum")((lambda s, sp: s.ins is not None and s.ins.kind == "field" and not s.ins.optional and s.ins.value is None and s.ins.type.split(":")[0] in sp.types() and not _switched(s),
                                                            lambda s, sp: setattr(s.ins, "value", "1")))
    op("hardcoded-non-basic", "literal-on-blob")((lambda s, sp: s.ins is not None and s.ins.kind == "field" and not s.ins.optional and s.ins.type == "blob",
                                                  lambda s, sp: setattr(s.ins, "value", "1")))
    op("length-on-non-string", "numeric-length-on-non-string")((lambda s, sp: s.ins is not None and s.ins.kind == "field" and s.ins.length is None and s.ins.type.split(":")[0] not in ("string", "encoded_string"),
                                                                lambda s, sp: setattr(s.ins, "length", 3)))
    # ---------------- switches
    op("switch-unsuitable-field", "switch-unknown-field")((lambda s, sp: s.ins is not None and s.ins.kind == "switch",
                                                           lambda s, sp: setattr(s.ins, "field", "no_such_field")))
    op("switch-unsuitable-field", "switch-on-later-field")((lambda s, sp: s.ins is not None and s.ins.kind == "switch" and s.index > 0 and getattr(s.body[s.index - 1], "name", None) == s.ins.field,
                                                            lambda s, sp: _swap(s.body, s.index - 1)))
    op("switch-unsuitable-field", "switch-on-outer-field")((lambda s, sp: s.ins is None and s.case_depth > 0 and not _dummy_before(s) and any(v.kind == "field" and v.type in ("char", "short", "byte") and not v.optional for v in s.outer_names.values()) ,
                                                            lambda s, sp: s.body.append(S.Switch(next(n for n, v in s.outer_names.items() if v.kind == "field" and v.type in ("char", "short", "byte") and not v.optional), [S.Case("1", False, [])]))))
    op("switch-unsuitable-field", "switch-on-array")((lambda s, sp: s.ins is None and not _dummy_before(s) and any(v.kind == "array" for v in s.names.values()),
                                                      lambda s, sp: s.body.append(S.Switch(next(n for n, v in s.names.items() if v.kind == "array"), [S.Case("1", False, [])]))))
    op("switch-unsuitable-field", "switch-on-string-struct-bool-blob")((lambda s, sp: s.ins is None and not _dummy_before(s) and any(_unsuitable(v, sp) for v in s.names.values()),
                                                                        lambda s, sp: s.body.append(S.Switch(next(n for n, v in s.names.items() if _unsuitable(v, sp)), [S.Case("1", False, [])]))))
    op("switch-bad-case-value", "case-value-text-on-int")((lambda s, sp: s.ins is not None and s.ins.kind == "switch" and s.ins.cases and not s.ins.cases[0].default and str(s.ins.cases[0].value).isdigit() and _switch_on_int(s, sp),
                                                           lambda s, sp: setattr(s.ins.cases[0], "value", "Abc")))
    op("switch-bad-case-value", "case-unknown-enum-member")((lambda s, sp: s.ins is not None and s.ins.kind == "switch" and s.ins.cases and not s.ins.cases[0].default and not str(s.ins.cases[0].value).isdigit(),
                                                             lambda s, sp: setattr(s.ins.cases[0], "value", "NoSuchMember")))
    # a name that is nearly right: another case, a stray underscore, the spelling the member has in the generated code
    op("switch-bad-case-value", "case-near-miss-spelling")((lambda s, sp: s.ins is not None and s.ins.kind == "switch" and s.ins.cases and not s.ins.cases[0].default and not str(s.ins.cases[0].value).isdigit() and _near_miss(str(s.ins.cases[0].value), _members_of_switch(s, sp)) is not None,
                                                            lambda s, sp: setattr(s.ins.cases[0], "value", _near_miss(str(s.ins.cases[0].value), _members_of_switch(s, sp)))))
    op("switch-bad-case-value", "case-python-spelling-of-None")((lambda s, sp: s.ins is not None and s.ins.kind == "switch" and s.ins.cases and not s.ins.cases[0].default and "None" in _members_of_switch(s, sp) and "None_" not in _members_of_switch(s, sp) and not any(str(c.value) == "None" for c in s.ins.cases[1:]),
                                                                 lambda s, sp: setattr(s.ins.cases[0], "value", "None_")))
    op("switch-bad-case-value", "case-value-missing")((lambda s, sp: s.ins is not None and s.ins.kind == "switch" and s.ins.cases and not s.ins.cases[0].default,
                                                       lambda s, sp: setattr(s.ins.cases[0], "value", None)))
    op("lone-default-case", "only-default")((lambda s, sp: s.ins is not None and s.ins.kind == "switch",
                                             lambda s, sp: setattr(s.ins, "cases", [S.Case(None, True, s.ins.cases[0].body)])))
    op("lone-default-case", "default-first")((lambda s, sp: s.ins is not None and s.ins.kind == "switch" and len(s.ins.cases) >= 1 and not s.ins.cases[0].default,
                                              lambda s, sp: s.ins.cases.insert(0, S.Case(None, True, []))))
    return ops


def _ends_in_dummy(ins):
    if ins.kind == "chunked":
        return bool(ins.body) and (ins.body[-1].kind == "dummy" or _ends_in_dummy(ins.body[-1]))
    if ins.kind == "switch":
        return any(c.body and (c.body[-1].kind == "dummy" or _ends_in_dummy(c.body[-1])) for c in ins.cases)
    return False


def _rename_to_earlier(s):
    s.ins.name = next(iter(s.names))


def _swap(body, i):
    body[i], body[i + 1] = body[i + 1], body[i]


def _dummy_before(s):
    return any(i.kind == "dummy" for i in s.body[: s.index])


def _insert_length_pair(s):
    n = _fresh(s.names)
    s.body.insert(s.index, S.Length(n + "_len", "char"))
    s.body.insert(s.index + 1, S.Array(n, "char", n + "_len", optional=True))


def _referenced(s):
    """Is the field used later as a switch field or (for lengths) as a length?"""
    name = s.ins.name
    found = [False]

    def visit(b):
        for i in b:
            if i.kind == "switch" and i.field == name:
                found[0] = True
            elif i.kind == "chunked":
                visit(i.body)
    visit(s.owner[1].body)
    for i in s.body:
        if i.kind == "switch" and i.field == name:
            found[0] = True
    return found[0]


_switched = _referenced


def _unsuitable(v, sp):
    if v.kind != "field":
        return False
    base = v.type.split(":")[0]
    if base in ("string", "encoded_string", "bool", "blob"):
        return True
    t = sp.types().get(base)
    return t is not None and not hasattr(t[0], "values")


def _optional_length_then_required(s):
    """The length becomes the first optional item of its body (its referrer follows suit), and a required field is put
    right behind it."""
    s.ins.optional = True
    for later in s.body[s.index + 1:]:
        if later.kind in ("field", "array") and later.length == s.ins.name:
            later.optional = True
    s.body.insert(s.index + 1, S.Field(_fresh(s.names), "char"))


def _near_miss(name, members):
    """A spelling close to `name` that is not a member (None when every candidate happens to be one)."""
    for cand in (name + "_", name.lower(), name.upper(), "_" + name, name.swapcase()):
        if cand != name and cand not in members:
            return cand
    return None


def _members_of_switch(s, sp):
    f = s.names.get(s.ins.field)
    if f is None or f.kind != "field":
        return ()
    ent = sp.types().get(f.type.split(":")[0])
    return tuple(v[0] for v in getattr(ent[0], "values", ()) or ()) if ent else ()


def _switch_on_int(s, sp):
    f = s.names.get(s.ins.field)
    return f is not None and f.kind == "field" and f.type in ("byte", "char", "short", "three", "int")


OPS = _ops()

# Instruction-level operators added after the type-level ones were calibrated: C17 runs them last, with what is
# left of the tree's random stream, so that every earlier operator keeps the sites it used to pick.
LATE_OPS = [
    ("hardcoded-wrong-type", "bool-literal-wrong-letter-case",
     lambda s, sp: s.ins is not None and s.ins.kind == "field" and not s.ins.optional and s.ins.type.split(":")[0] == "bool",
     lambda s, sp: setattr(s.ins, "value", ("True", "FALSE", "tRuE", "False")[len(s.owner[0]) % 4])),
]


# ---------------- file / type level operators: (rule, name, applicable(spec), mutate(spec, rng))
def _type_ops():
    ops = []

    def some_struct(sp, rng):
        c = [(p, s) for p, f in sp.files.items() for s in f.structs]
        return rng.choice(c) if c else None

    def some_enum(sp, rng):
        c = [(p, e) for p, f in sp.files.items() for e in f.enums]
        return rng.choice(c) if c else None

    def dup_struct_same_file(sp, rng):
        x = some_struct(sp, rng)
        if not x:
            return False
        sp.files[x[0]].structs.append(copy.deepcopy(x[1]))
        return True

    def dup_enum_other_file(sp, rng):
        x = some_enum(sp, rng)
        if not x:
            return False
        other = rng.choice([p for p in sp.files if p != x[0]])
        sp.files[other].enums.append(copy.deepcopy(x[1]))
        return True

    def struct_named_as_enum(sp, rng):
        x, e = some_struct(sp, rng), some_enum(sp, rng)
        if not x or not e:
            return False
        sp.files[x[0]].structs.append(S.Struct(e[1].name, [S.Field("a", "char")]))
        return True

    def dup_enum_same_file(sp, rng):
        x = some_enum(sp, rng)
        if not x:
            return False
        sp.files[x[0]].enums.append(copy.deepcopy(x[1]))
        return True

    def dup_struct_other_file(sp, rng):
        x = some_struct(sp, rng)
        if not x:
            return False
        other = rng.choice([p for p in sp.files if p != x[0]])
        sp.files[other].structs.append(S.Struct(x[1].name, [S.Field("zz", "char")]))
        return True

    ops += [("redefined-type", "duplicate-enum-same-file", dup_enum_same_file), ("redefined-type", "duplicate-struct-other-file", dup_struct_other_file)]
    ops += [("redefined-type", "duplicate-struct-same-file", dup_struct_same_file), ("redefined-type", "duplicate-enum-other-file", dup_enum_other_file),
            ("redefined-type", "struct-named-as-enum", struct_named_as_enum)]

    def enum_mut(fn):
        def m(sp, rng):
            x = some_enum(sp, rng)
            if not x or not x[1].values:
                return False
            return fn(x[1], rng, sp) is not False
        return m

    def used_enum_mut(fn):
        """Like enum_mut but on an enum that some field references (the generator resolves types lazily)."""
        def m(sp, rng):
            used = set()
            for path, f in sp.files.items():
                for d in list(f.structs) + list(f.packets):
                    S.walk(d.body, lambda ins, b, i, depth: used.add(ins.type.split(":")[0]) if ins.kind in ("field", "array") and ins.type else None)
            c = [e for p, f in sp.files.items() for e in f.enums if e.name in used or True]
            if not c:
                return False
            return fn(rng.choice(c), rng, sp) is not False
        return m

    def set_ordinal(e, rng, sp, val):
        i = rng.randrange(len(e.values))
        v = list(e.values[i])
        v[1] = val
        e.values[i] = tuple(v)

    ops += [
        ("malformed-enum-value", "ordinal-not-integer", used_enum_mut(lambda e, r, sp: set_ordinal(e, r, sp, "one") if e.values else False)),
        ("malformed-enum-value", "ordinal-float", used_enum_mut(lambda e, r, sp: set_ordinal(e, r, sp, "1.5") if e.values else False)),
        ("malformed-enum-value", "ordinal-empty", used_enum_mut(lambda e, r, sp: set_ordinal(e, r, sp, "") if e.values else False)),
        ("malformed-enum-value", "duplicate-ordinal", used_enum_mut(lambda e, r, sp: e.values.append(("ZzDup", e.values[0][1], None)) if e.values else False)),
        ("malformed-enum-value", "duplicate-ordinal-leading-zero", used_enum_mut(lambda e, r, sp: e.values.append(("ZzDup", "0%d" % int(e.values[0][1]), None)) if e.values and isinstance(e.values[0][1], int) else False)),
        ("malformed-enum-value", "duplicate-ordinal-plus-sign", used_enum_mut(lambda e, r, sp: e.values.append(("ZzDup", "+%d" % int(e.values[-1][1]), None)) if e.values and isinstance(e.values[-1][1], int) else False)),
        ("malformed-enum-value", "duplicate-ordinal-padded", used_enum_mut(lambda e, r, sp: e.values.append(("ZzDup", " %d " % int(e.values[0][1]), None)) if e.values and isinstance(e.values[0][1], int) else False)),
        ("malformed-enum-value", "duplicate-name", used_enum_mut(lambda e, r, sp: e.values.append((e.values[0][0], 251, None)) if e.values and all(v[1] != 251 for v in e.values) else False)),
        ("malformed-enum-value", "missing-name", used_enum_mut(lambda e, r, sp: e.values.append((None, 250, None)) if all(v[1] != 250 for v in e.values) else False)),
        ("malformed-underlying-type", "enum-type-string", used_enum_mut(lambda e, r, sp: setattr(e, "type", "string"))),
        ("malformed-underlying-type", "enum-type-bool", used_enum_mut(lambda e, r, sp: setattr(e, "type", "bool"))),
        ("malformed-underlying-type", "enum-type-self", used_enum_mut(lambda e, r, sp: setattr(e, "type", e.name))),
        ("malformed-underlying-type", "enum-type-other-enum", used_enum_mut(lambda e, r, sp: setattr(e, "type", next(x.name for p, f in sp.files.items() for x in f.enums if x is not e)) if sum(len(f.enums) for f in sp.files.values()) > 1 else False)),
        ("malformed-underlying-type", "enum-type-missing", used_enum_mut(lambda e, r, sp: setattr(e, "type", None))),
        ("unknown-type", "enum-type-unknown", used_enum_mut(lambda e, r, sp: setattr(e, "type", "NoSuchType7"))),
    ]

    def field_type_mut(new_type_fn):
        def m(sp, rng):
            c = []
            for path, f in sp.files.items():
                for d in list(f.structs) + list(f.packets):
                    S.walk(d.body, lambda ins, b, i, depth: c.append(ins) if ins.kind == "field" and ins.type and ins.value is None else None)
            rng.shuffle(c)
            for ins in c:
                nt = new_type_fn(ins, sp)
                if nt:
                    ins.type = nt
                    return True
            return False
        return m

    def is_enum(ins, sp):
        t = sp.types().get(ins.type.split(":")[0])
        return t is not None and hasattr(t[0], "values")

    def is_struct(ins, sp):
        t = sp.types().get(ins.type.split(":")[0])
        return t is not None and not hasattr(t[0], "values")

    ops += [
        ("malformed-underlying-type", "int-with-override", field_type_mut(lambda ins, sp: "char:short" if ins.type in ("char", "byte", "int") else None)),
        ("malformed-underlying-type", "enum-override-string", field_type_mut(lambda ins, sp: ins.type.split(":")[0] + ":string" if is_enum(ins, sp) else None)),
        ("malformed-underlying-type", "two-colons", field_type_mut(lambda ins, sp: ins.type.split(":")[0] + ":char:short" if is_enum(ins, sp) or ins.type.startswith("bool") else None)),
        ("malformed-underlying-type", "override-on-struct", field_type_mut(lambda ins, sp: ins.type + ":char" if is_struct(ins, sp) else None)),
        ("malformed-underlying-type", "self-override", field_type_mut(lambda ins, sp: ins.type.split(":")[0] + ":" + ins.type.split(":")[0] if is_enum(ins, sp) or ins.type.startswith("bool") else None)),
        ("unknown-type", "override-unknown", field_type_mut(lambda ins, sp: "bool:NoSuchType7" if ins.type.startswith("bool") else None)),
    ]

    def packet_mut(fn):
        def m(sp, rng):
            c = [(p, pk) for p, f in sp.files.items() for pk in f.packets]
            if not c:
                return False
            p, pk = rng.choice(c)
            return fn(sp, p, pk, rng) is not False
        return m

    ops += [
        ("unknown-packet-family", "family-unknown", packet_mut(lambda sp, p, pk, r: setattr(pk, "family", "NoSuchFamily"))),
        ("unknown-packet-action", "action-unknown", packet_mut(lambda sp, p, pk, r: setattr(pk, "action", "NoSuchAction"))),
        ("unknown-packet-family", "family-removed-from-enum", packet_mut(lambda sp, p, pk, r: _drop_enum_value(sp, "PacketFamily", pk.family))),
        ("unknown-packet-action", "action-removed-from-enum", packet_mut(lambda sp, p, pk, r: _drop_enum_value(sp, "PacketAction", pk.action))),
        ("unknown-packet-family", "family-near-miss-spelling", packet_mut(lambda sp, p, pk, r: _set_near_miss(sp, pk, "family", "PacketFamily"))),
        ("unknown-packet-action", "action-near-miss-spelling", packet_mut(lambda sp, p, pk, r: _set_near_miss(sp, pk, "action", "PacketAction"))),
        ("unknown-packet-family", "family-python-spelling-of-None", packet_mut(lambda sp, p, pk, r: _rename_enum_value(sp, "PacketFamily", "family", pk.family, "None") and setattr(pk, "family", "None_"))),
        ("unknown-packet-action", "action-python-spelling-of-None", packet_mut(lambda sp, p, pk, r: _rename_enum_value(sp, "PacketAction", "action", pk.action, "None") and setattr(pk, "action", "None_"))),
        ("duplicate-packet", "duplicate-in-file", packet_mut(lambda sp, p, pk, r: sp.files[p].packets.append(copy.deepcopy(pk)))),
        ("packet-outside-net", "packet-in-other-dir", packet_mut(lambda sp, p, pk, r: sp.files[r.choice(["", "map", "pub", "net", "pub/server"])].packets.append(copy.deepcopy(pk)))),
        ("packet-missing-attribute", "family-missing", packet_mut(lambda sp, p, pk, r: setattr(pk, "family", None))),
        ("packet-missing-attribute", "action-missing", packet_mut(lambda sp, p, pk, r: setattr(pk, "action", None))),
    ]
    # appended last (the operators share one random stream per tree): ordinals spelled as prefixed Python literals
    ops += [
        ("malformed-enum-value", "ordinal-hex-literal", used_enum_mut(lambda e, r, sp: set_ordinal(e, r, sp, "0x10") if e.values else False)),
        ("malformed-enum-value", "ordinal-binary-or-octal-literal", used_enum_mut(lambda e, r, sp: set_ordinal(e, r, sp, r.choice(["0b11", "0o7", "0X1f"])) if e.values else False)),
    ]
    return ops


TYPE_OPS = _type_ops()


def instruction_mutants(spec, rng, per_op_placement=3, ops=None):
    """Yield (rule, operator, placement, mutated_spec) - at most per_op_placement sites per
    (operator, placement) pair, chosen at random among all eligible sites."""
    sites = list(walk_sites(spec))
    for rule, name, eligible, mutate in (OPS if ops is None else ops):
        by_place = {}
        for k, s in enumerate(sites):
            try:
                if eligible(s, spec):
                    by_place.setdefault(s.placement, []).append(k)
            except Exception:
                continue
        for placement, ks in sorted(by_place.items()):
            rng.shuffle(ks)
            for k in ks[:per_op_placement]:
                clone = spec.clone()
                csite = list(walk_sites(clone))[k]
                try:
                    mutate(csite, clone)
                except Exception:
                    continue
                yield rule, name, placement + ":" + sites[k].owner[0], clone


def _enum_decl(sp, enum_name):
    for f in sp.files.values():
        for e in f.enums:
            if e.name == enum_name:
                return e
    return None


def _set_near_miss(sp, pk, attr, enum_name):
    e = _enum_decl(sp, enum_name)
    if e is None or getattr(pk, attr) is None:
        return False
    cand = _near_miss(getattr(pk, attr), tuple(v[0] for v in e.values))
    if cand is None:
        return False
    setattr(pk, attr, cand)
    return None


def _rename_enum_value(sp, enum_name, attr, old, new):
    """The value `old` of the enum is called `new` from now on, in the declaration and in every packet that names it
    (the spec stays valid); False when that cannot be done."""
    e = _enum_decl(sp, enum_name)
    if e is None or old is None:
        return False
    names = [v[0] for v in e.values]
    if old not in names or (new in names and old != new) or new + "_" in names:
        return False
    e.values[:] = [((new,) + tuple(v[1:])) if v[0] == old else v for v in e.values]
    for f in sp.files.values():
        for pk in f.packets:
            if getattr(pk, attr) == old:
                setattr(pk, attr, new)
    return True


def _drop_enum_value(sp, enum_name, value_name):
    """The enum loses a value that a packet still names (the spec was valid a moment ago)."""
    for f in sp.files.values():
        for e in f.enums:
            if e.name == enum_name:
                keep = [v for v in e.values if v[0] != value_name]
                if len(keep) == len(e.values) or not keep:
                    return False
                e.values[:] = keep
                return True
    return False


def type_mutants(spec, rng, repeats=2):
    for rule, name, fn in TYPE_OPS:
        for _ in range(repeats):
            clone = spec.clone()
            try:
                if fn(clone, rng) is False:
                    continue
            except Exception:
                continue
            yield rule, name, "file", clone
