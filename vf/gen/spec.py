"""Spec AST (own classes, independent of the repository's generator), XML rendering and parsing.

A Spec is an ordered mapping  relative directory -> File(enums, structs, packets).
Instruction bodies are lists of Field / Array / Length / Dummy / Switch / Chunked / Break.
"""
import copy
import xml.etree.ElementTree as ET
from xml.sax.saxutils import escape, quoteattr

PATHS = ["", "map", "net", "net/client", "net/server", "pub", "pub/server"]


class Node:
    def clone(self):
        return copy.deepcopy(self)

    def __repr__(self):
        return "%s(%s)" % (type(self).__name__, ", ".join("%s=%r" % kv for kv in self.__dict__.items() if kv[1] not in (None, False, [])))


class Field(Node):
    kind = "field"

    def __init__(self, name, type, length=None, padded=False, optional=False, value=None, comment=None):
        self.name, self.type, self.length, self.padded, self.optional, self.value, self.comment = name, type, length, padded, optional, value, comment


class Array(Node):
    kind = "array"

    def __init__(self, name, type, length=None, optional=False, delimited=False, trailing=True, comment=None):
        self.name, self.type, self.length, self.optional, self.delimited, self.trailing, self.comment = name, type, length, optional, delimited, trailing, comment


class Length(Node):
    kind = "length"

    def __init__(self, name, type, offset=0, optional=False, comment=None):
        self.name, self.type, self.offset, self.optional, self.comment = name, type, offset, optional, comment


class Dummy(Node):
    kind = "dummy"

    def __init__(self, type, value, comment=None):
        self.type, self.value, self.comment = type, value, comment


class Case(Node):
    def __init__(self, value=None, default=False, body=None, comment=None):
        self.value, self.default, self.body, self.comment = value, default, body or [], comment


class Switch(Node):
    kind = "switch"

    def __init__(self, field, cases):
        self.field, self.cases = field, cases


class Chunked(Node):
    kind = "chunked"

    def __init__(self, body):
        self.body = body


class Break(Node):
    kind = "break"


class Enum(Node):
    def __init__(self, name, type, values, comment=None):
        self.name, self.type, self.values, self.comment = name, type, values, comment  # values: [(name, ordinal, comment)]


class Struct(Node):
    def __init__(self, name, body, comment=None):
        self.name, self.body, self.comment = name, body, comment


class Packet(Node):
    def __init__(self, family, action, body, comment=None):
        self.family, self.action, self.body, self.comment = family, action, body, comment


class File(Node):
    def __init__(self, path, enums=None, structs=None, packets=None):
        self.path, self.enums, self.structs, self.packets = path, enums or [], structs or [], packets or []


def packet_name(p, path):
    return p.family + p.action + ("ClientPacket" if path == "net/client" else "ServerPacket" if path == "net/server" else "Packet")


class Spec(Node):
    def __init__(self, files=None):
        self.files = files or {p: File(p) for p in PATHS}
        self.raw_extra = {}  # path -> list of raw XML strings appended verbatim (used by C17 mutants)

    # ---- lookup
    def types(self):
        """name -> (decl, path) for enums and structs, first definition wins."""
        out = {}
        for path, f in self.files.items():
            for e in f.enums:
                out.setdefault(e.name, (e, path))
            for s in f.structs:
                out.setdefault(s.name, (s, path))
        return out

    def classes(self):
        """[(class_name, decl, path)] for structs and packets, in generation order."""
        out = []
        for path, f in self.files.items():
            for s in f.structs:
                out.append((s.name, s, path))
            for p in f.packets:
                out.append((packet_name(p, path), p, path))
        return out

    def enums(self):
        return [(e.name, e, path) for path, f in self.files.items() for e in f.enums]


# ------------------------------------------------------------------ XML rendering


_SPELL = [False, 0]  # [vary the spelling?, counter]


def _b(v):
    """Boolean attribute value.  The generator reads any spelling that is 'true' up to case as true and everything else
    as false; the explicit rendering (every default spelled out) takes the spellings in turn."""
    if not _SPELL[0]:
        return "true" if v else "false"
    _SPELL[1] += 1
    return ("true", "True", "TRUE", "tRuE")[_SPELL[1] % 4] if v else ("false", "False", "0", "no")[_SPELL[1] % 4]


def _comment(c, ind):
    return ["%s<comment>%s</comment>" % (ind, escape(c))] if c else []


def render_body(body, ind, explicit, out):
    for ins in body:
        k = ins.kind
        if k == "field":
            a = []
            if ins.name is not None:
                a.append("name=%s" % quoteattr(ins.name))
            a.append("type=%s" % quoteattr(ins.type))
            if ins.length is not None:
                a.append("length=%s" % quoteattr(str(ins.length)))
            if ins.padded or (explicit and ins.length is not None):
                a.append('padded="%s"' % _b(ins.padded))
            if ins.optional or explicit:
                a.append('optional="%s"' % _b(ins.optional))
            inner = (escape(ins.value) if ins.value is not None else "") + "".join(_comment(ins.comment, ""))
            if explicit and ins.value is not None and ins.comment:
                # the twin rendering also writes the documentation first and the hard-coded value after it
                inner = "".join(_comment(ins.comment, "")) + escape(ins.value)
            out.append("%s<field %s%s" % (ind, " ".join(a), ">%s</field>" % inner if inner else "/>"))
        elif k == "array":
            a = ["name=%s" % quoteattr(ins.name), "type=%s" % quoteattr(ins.type)]
            if ins.length is not None:
                a.append("length=%s" % quoteattr(str(ins.length)))
            if ins.optional or explicit:
                a.append('optional="%s"' % _b(ins.optional))
            if ins.delimited or explicit:
                a.append('delimited="%s"' % _b(ins.delimited))
            if not ins.trailing or explicit:
                a.append('trailing-delimiter="%s"' % _b(ins.trailing))
            inner = "".join(_comment(ins.comment, ""))
            out.append("%s<array %s%s" % (ind, " ".join(a), ">%s</array>" % inner if inner else "/>"))
        elif k == "length":
            a = ["name=%s" % quoteattr(ins.name), "type=%s" % quoteattr(ins.type)]
            if ins.offset or explicit:
                a.append('offset="%d"' % ins.offset)
            if ins.optional or explicit:
                a.append('optional="%s"' % _b(ins.optional))
            out.append("%s<length %s/>" % (ind, " ".join(a)))
        elif k == "dummy":
            out.append("%s<dummy type=%s>%s</dummy>" % (ind, quoteattr(ins.type), escape(ins.value) if ins.value is not None else ""))
        elif k == "switch":
            out.append("%s<switch field=%s>" % (ind, quoteattr(ins.field)))
            for c in ins.cases:
                if c.default:
                    head = '<case default="true">'
                elif c.value is None:
                    head = "<case>"
                else:
                    head = "<case value=%s%s>" % (quoteattr(str(c.value)), ' default="false"' if explicit else "")
                out.append(ind + "  " + head)
                out.extend(_comment(c.comment, ind + "    "))
                render_body(c.body, ind + "    ", explicit, out)
                out.append(ind + "  </case>")
            out.append("%s</switch>" % ind)
        elif k == "chunked":
            out.append("%s<chunked>" % ind)
            render_body(ins.body, ind + "  ", explicit, out)
            out.append("%s</chunked>" % ind)
        elif k == "break":
            out.append("%s<break/>" % ind)
        elif k == "raw":
            out.append(ind + ins.xml)


class Raw(Node):
    """Verbatim XML instruction (C17 mutants that cannot be expressed in the AST)."""
    kind = "raw"

    def __init__(self, xml):
        self.xml = xml


def render_file(f, explicit=False, extra=()):
    out = ["<?xml version='1.0' encoding='UTF-8'?>", "<protocol>"]
    for e in f.enums:
        attrs = "name=%s" % quoteattr(e.name)
        if e.type is not None:
            attrs += " type=%s" % quoteattr(e.type)
        out.append("  <enum %s>" % attrs)
        out.extend(_comment(e.comment, "    "))
        for v in e.values:
            name, ordinal = v[0], v[1]
            com = v[2] if len(v) > 2 else None
            nm = "" if name is None else " name=%s" % quoteattr(name)
            out.append("    <value%s>%s%s</value>" % (nm, escape(str(ordinal)), "".join(_comment(com, ""))))
        out.append("  </enum>")
    for s in f.structs:
        out.append("  <struct name=%s>" % quoteattr(s.name))
        out.extend(_comment(s.comment, "    "))
        render_body(s.body, "    ", explicit, out)
        out.append("  </struct>")
    for p in f.packets:
        a = []
        if p.family is not None:
            a.append("family=%s" % quoteattr(p.family))
        if p.action is not None:
            a.append("action=%s" % quoteattr(p.action))
        out.append("  <packet %s>" % " ".join(a))
        out.extend(_comment(p.comment, "    "))
        render_body(p.body, "    ", explicit, out)
        out.append("  </packet>")
    for x in extra:
        out.append("  " + x)
    out.append("</protocol>")
    return "\n".join(out) + "\n"


def render(spec, explicit=False):
    _SPELL[0], _SPELL[1] = bool(explicit), 0
    try:
        return _render(spec, explicit)
    finally:
        _SPELL[0] = False


def _render(spec, explicit=False):
    """-> {relative_dir: xml_text}"""
    return {path: render_file(f, explicit, spec.raw_extra.get(path, ())) for path, f in spec.files.items()}


# ------------------------------------------------------------------ XML parsing (own parser)


def _text(el):
    t = (el.text or "").strip()
    for ch in el:
        tail = (ch.tail or "").strip()
        if tail and not t:
            t = tail
    return t if t else None


def _comment_of(el):
    c = el.find("comment")
    return (c.text or "").strip() if c is not None and (c.text or "").strip() else None


def _bool(el, name, default=False):
    v = el.get(name)
    return default if v is None else v.lower() == "true"


def _len(v):
    if v is None:
        return None
    return int(v) if v.isdigit() else v


def parse_body(el):
    out = []
    for ch in el:
        t = ch.tag
        if t == "field":
            out.append(Field(ch.get("name"), ch.get("type"), _len(ch.get("length")), _bool(ch, "padded"), _bool(ch, "optional"), _text(ch), _comment_of(ch)))
        elif t == "array":
            out.append(Array(ch.get("name"), ch.get("type"), _len(ch.get("length")), _bool(ch, "optional"), _bool(ch, "delimited"), _bool(ch, "trailing-delimiter", True), _comment_of(ch)))
        elif t == "length":
            out.append(Length(ch.get("name"), ch.get("type"), int(ch.get("offset", "0")), _bool(ch, "optional")))
        elif t == "dummy":
            out.append(Dummy(ch.get("type"), _text(ch)))
        elif t == "switch":
            cases = []
            for c in ch.findall("case"):
                cases.append(Case(c.get("value"), _bool(c, "default"), parse_body(c), _comment_of(c)))
            out.append(Switch(ch.get("field"), cases))
        elif t == "chunked":
            out.append(Chunked(parse_body(ch)))
        elif t == "break":
            out.append(Break())
    return out


def parse_file(path, text):
    root = ET.fromstring(text)
    f = File(path)
    for e in root.findall("enum"):
        f.enums.append(Enum(e.get("name"), e.get("type"), [(v.get("name"), int(_text(v)), _comment_of(v)) for v in e.findall("value")], _comment_of(e)))
    for s in root.findall("struct"):
        f.structs.append(Struct(s.get("name"), parse_body(s), _comment_of(s)))
    for p in root.findall("packet"):
        f.packets.append(Packet(p.get("family"), p.get("action"), parse_body(p), _comment_of(p)))
    return f


def parse(files):
    spec = Spec()
    for path in PATHS:
        if path in files:
            spec.files[path] = parse_file(path, files[path])
    return spec


def walk(body, fn, depth=0):
    """Call fn(instr, container_list, index, depth) for every instruction, recursively."""
    for i, ins in enumerate(list(body)):
        fn(ins, body, i, depth)
        if ins.kind == "chunked":
            walk(ins.body, fn, depth + 1)
        elif ins.kind == "switch":
            for c in ins.cases:
                walk(c.body, fn, depth + 1)


def snake_to_pascal(name):
    return "".join(p[:1].upper() + p[1:].lower() for p in name.split("_"))
