"""Module-name derivation (own implementation): PascalCase type name -> snake_case module name.
An underscore goes before an upper-case letter that starts a new word: it follows a lower-case letter,
or it is followed by a character that is not upper-case (the last capital of an acronym run)."""


def snake(name):
    out = []
    n = len(name)
    for i, c in enumerate(name):
        if i > 0 and c.isupper():
            prev_lower = name[i - 1].islower()
            next_not_upper = i + 1 < n and not name[i + 1].isupper()
            if prev_lower or next_not_upper:
                out.append("_")
        out.append(c.lower())
    return "".join(out)
