"""ValueGen: reference-side object values (interp.Obj) for a class of a spec.

dialect 'nd': any valid constructible value (unencodable / 0xFF characters, unrecognised ordinals,
              optional holes, empty strings ...)
dialect 'wu': values inside C01's round-trip domain (cp1252-encodable strings without the lossy
              characters, optional prefixes with non-empty present values, 0xFF-free raw data when the
              message has a chunked section ...)
"""
from vf.gen import values as V
from vf.ref import numbers
from vf.ref.interp import Obj

SAFE = "abcdefghijklmnopqrstuvwxyzABCXYZ0123456789 _-.,!?"
HIGH_SAFE = "€ŠŒŽ¡¢£©®±²¼¾ÀÅÒÖÃäëïöüþ"


def has_chunked(interp, body, seen=None):
    seen = set() if seen is None else seen
    for ins in body:
        if ins.kind == "chunked":
            return True
        if ins.kind == "switch":
            if any(has_chunked(interp, c.body, seen) for c in ins.cases):
                return True
        if ins.kind in ("field", "array"):
            base = ins.type.split(":")[0]
            if base in interp.types and not hasattr(interp.types[base][0], "values") and base not in seen:
                seen.add(base)
                if has_chunked(interp, interp.types[base][0].body, seen):
                    return True
    return False


class ValueGen:
    _big = {"short": 0, "small": 0, "inside": 0}

    def __init__(self, interp, rng, dialect="nd"):
        self.it = interp
        self.rng = rng
        self.dialect = dialect
        self.ff_free = False  # set per message in wu dialect
        self.force = {}  # (cls, switch_field) -> forced field value

    # ------------------------------------------------------------ scalars
    def string(self, n=None, maxlen=8, minlen=0, encoded=False, sanitized=False, padded=False):
        rng = self.rng
        if n is None:
            n = rng.randrange(minlen, maxlen + 1)
            if rng.random() < 0.004:
                n = rng.choice([253, 254, 256, 300, 65536, 70001])  # size thresholds
        if self.dialect == "wu":
            pool = SAFE + (HIGH_SAFE if rng.random() < 0.4 else "")
            if not encoded and rng.random() < 0.2:
                pool += "~"
            if not (sanitized or padded or self.ff_free) and rng.random() < 0.15:
                pool += "ÿ"
            return V.edges(rng, "".join(rng.choice(pool) for _ in range(n)))
        classes = ["ascii", "high", "ydia", "tilde", "outside"]
        s = V.rand_string(rng, n, tuple(classes), minlen=n)
        return s

    def integer(self, wire):
        v = V.rand_int(self.rng, wire)
        if self.dialect == "wu" and self.ff_free and wire == "byte" and v == 255:
            v = 254
        return v

    def enum_value(self, t, forced=None):
        rng = self.rng
        if forced is not None:
            return forced
        lim = numbers.LIMIT[t.wire]
        declared = [v[1] for v in t.decl.values if 0 <= v[1] < lim]
        if declared and rng.random() < 0.75:
            return rng.choice(declared)
        for _ in range(20):
            x = rng.choice([0, 1, 2, 3, 7, 100, 200, lim - 1, rng.randrange(lim)])
            if x < lim and not (self.dialect == "wu" and self.ff_free and t.wire == "byte" and x == 255):
                return x
        return declared[0] if declared else 0

    def blob(self):
        n = self.rng.randrange(0, 7)
        hi = 255 if (self.dialect == "wu" and self.ff_free) else 256
        return bytes(self.rng.randrange(hi) for _ in range(n))

    # ------------------------------------------------------------ objects
    def message(self, name):
        """A value for the top-level class `name`."""
        body, _c, _i = self.it.body_of((name,))
        self.ff_free = self.dialect == "wu" and has_chunked(self.it, body)
        # 0xFF-capable data is only a problem ahead of or inside a chunked section: everything after the
        # last top-level instruction that contains one (directly or through a struct / case) is free again
        self._free_after = None
        self._big = {"short": 0, "small": 0, "inside": 0}
        if self.ff_free:
            last = max(i for i, ins in enumerate(body) if has_chunked(self.it, [ins]))
            self._free_after = (id(body), last)
        try:
            return self.obj((name,), False)
        finally:
            self._free_after = None

    def obj(self, cls, sanitized):
        body, chunked, _inh = self.it.body_of(tuple(cls))
        fields = {}
        st = {"opt_missing": False, "lens": {}, "switched": self._switch_fields(body)}
        saved = getattr(self, "_len_decl", {})
        saved_forced = getattr(self, "_len_forced", {})
        self._len_decl = {}
        self._len_forced = {}
        try:
            self._body(body, tuple(cls), fields, st, sanitized or chunked)
        finally:
            self._len_decl = saved
            self._len_forced = saved_forced
        return Obj(cls, fields)

    def _switch_fields(self, body):
        out = {}

        def visit(b):
            for ins in b:
                if ins.kind == "switch":
                    out[ins.field] = ins
                elif ins.kind == "chunked":
                    visit(ins.body)
        visit(body)
        return out

    def scalar(self, ins, t, sanitized, in_array=False, forced=None):
        rng = self.rng
        if t.kind == "int":
            return forced if forced is not None else self.integer(t.wire)
        if t.kind == "bool":
            return rng.random() < 0.5
        if t.kind == "enum":
            return self.enum_value(t, forced)
        if t.kind in ("str", "estr"):
            enc = t.kind == "estr"
            length = None if in_array else ins.length
            padded = (not in_array) and getattr(ins, "padded", False)
            minlen = 1 if (self.dialect == "wu" and (in_array or getattr(ins, "optional", False))) else 0
            if isinstance(length, int):
                n = length
                if padded:
                    n = length if (self.dialect == "wu" and self.ff_free) else rng.randrange(0, length + 1)
                return self.string(n, encoded=enc, sanitized=sanitized, padded=padded)
            if isinstance(length, str) and length in getattr(self, "_len_forced", {}):
                return self.string(self._len_forced[length], encoded=enc, sanitized=sanitized, padded=padded)
            if isinstance(length, str):
                ld = self._len_decl[length]
                lo = max(0, ld.offset, minlen)
                n = rng.randrange(lo, lo + 7)
                n = self._maybe_boundary_length(ld, n, cheap=True)
                if self.dialect == "wu" and self.ff_free and self.it.resolve(ld.type).wire == "byte" and n - ld.offset == 255:
                    n -= 1
                return self.string(n, encoded=enc, sanitized=sanitized, padded=padded)
            return self.string(None, minlen=minlen, encoded=enc, sanitized=sanitized)
        if t.kind == "blob":
            b = self.blob()
            if self.dialect == "wu" and (in_array or getattr(ins, "optional", False)) and not b:
                b = b"\x01"
            return b
        return self.obj((t.name,), sanitized)

    def _body(self, body, cls, fields, st, sanitized):
        rng = self.rng
        fa = getattr(self, "_free_after", None)
        for idx, ins in enumerate(body):
            if fa is not None and fa[0] == id(body) and idx > fa[1]:
                self.ff_free = False
            k = ins.kind
            if k == "length":
                self._len_decl = dict(self._len_decl)
                self._len_decl[ins.name] = ins
                if ins.name in st["switched"]:
                    # a switch looks at this count: settle it now, the item that refers to it follows suit
                    n = self._pick_switch_value(cls, st["switched"][ins.name], self.it.resolve(ins.type))
                    n = min(max(n, 0, ins.offset), max(0, self.it.max_len_of(ins)), 40)
                    self._len_forced = dict(self._len_forced)
                    self._len_forced[ins.name] = n
            elif k == "field":
                if ins.name is None:
                    continue
                t = self.it.resolve(ins.type)
                if ins.value is not None:
                    fields[ins.name] = self.it.literal(t, ins.value)
                    continue
                if ins.optional and self._skip_optional(st):
                    fields[ins.name] = None
                    continue
                forced = None
                if ins.name in st["switched"]:
                    forced = self._pick_switch_value(cls, st["switched"][ins.name], t)
                fields[ins.name] = self.scalar(ins, t, sanitized, forced=forced)
            elif k == "array":
                if ins.optional and self._skip_optional(st):
                    fields[ins.name] = None
                    continue
                t = self.it.resolve(ins.type)
                if isinstance(ins.length, int):
                    n = ins.length
                elif isinstance(ins.length, str) and ins.length in self._len_forced:
                    n = self._len_forced[ins.length]
                elif isinstance(ins.length, str):
                    ld = self._len_decl[ins.length]
                    n = rng.randrange(max(0, ld.offset), max(0, ld.offset) + 5)
                    n = self._maybe_boundary_length(ld, n, cheap=t.kind in ("int", "bool", "enum"))
                else:
                    n = rng.choice([0, 1, 1, 2, 3, 5])
                if self.dialect == "wu" and ins.optional and n == 0 and not isinstance(ins.length, int) and ins.length not in self._len_forced:
                    n = 1
                if n > 100:
                    self._big["inside"] += 1
                try:
                    fields[ins.name] = [self.scalar(ins, t, sanitized, in_array=True) for _ in range(n)]
                finally:
                    if n > 100:
                        self._big["inside"] -= 1
            elif k == "switch":
                fv = self._len_forced[ins.field] if ins.field in self._len_forced else fields.get(ins.field)
                case = self.it.select_case(ins, fv, cls)
                if case is None or not case.body:
                    fields[ins.field + "_data"] = None
                else:
                    fields[ins.field + "_data"] = self.obj(cls + (self.it.case_class_name(ins.field, case),), sanitized)
            elif k == "chunked":
                self._body(ins.body, cls, fields, st, True)
            elif k == "break":
                if self.dialect == "wu":
                    st["opt_missing"] = False

    def _maybe_boundary_length(self, ld, n, cheap):
        """Occasionally use a length at / just below the largest one the length field can carry
        (max(type) + offset): valid values the declaration allows but small samples never reach."""
        rng = self.rng
        wire = self.it.resolve(ld.type).wire
        top = self.it.max_len_of(ld)
        p = {"byte": 0.10, "char": 0.10, "short": 0.01 if cheap else 0.0}.get(wire, 0.0)
        if not cheap:
            p *= 0.3
        if top < 0 or rng.random() >= p:
            return n
        # keep a message affordable: one 64k-sized and three 250-sized items per message at most, and none
        # inside the elements of such an item (they would multiply)
        used = self._big
        if used["inside"] or (wire == "short" and used["short"] >= 1) or (wire != "short" and used["small"] >= 3):
            return n
        used["short" if wire == "short" else "small"] += 1
        m = max(0, ld.offset, top - rng.choice([0, 0, 1, 2, 3]) - (2 * max(0, ld.offset) if rng.random() < 0.4 else 0))
        if self.dialect == "wu" and self.ff_free and wire == "byte" and m - ld.offset == 255:
            m -= 1
        return m

    def _skip_optional(self, st):
        rng = self.rng
        if self.dialect == "wu":
            if st["opt_missing"]:
                return True
            if rng.random() < 0.3:
                st["opt_missing"] = True
                return True
            return False
        return rng.random() < 0.3

    def _pick_switch_value(self, cls, sw, t):
        key = (cls, sw.field)
        if key in self.force:
            return self.force[key]
        rng = self.rng
        vals = []
        for c in sw.cases:
            if c.default:
                continue
            cv = str(c.value)
            vals.append(self.it.enum_ordinal(t.decl, cv) if (t.kind == "enum" and not cv.isdigit()) else int(cv))
        lim = numbers.LIMIT[t.wire]
        vals = [v for v in vals if v < lim]
        r = rng.random()
        if vals and r < 0.8:
            return rng.choice(vals)
        # a value matching no explicit case (default branch or no case at all)
        for _ in range(30):
            x = rng.randrange(min(lim, 60))
            if x not in vals and not (self.dialect == "wu" and self.ff_free and t.wire == "byte" and x == 255):
                return x
        return vals[0] if vals else 0
