"""Shared value generators: boundary-biased integers and strings from purpose-chosen alphabets."""
B = 253
LIMITS = {"byte": 256, "char": B, "short": B * B, "three": B ** 3, "int": B ** 4}

ASCII = "abcXYZ 019_-!\"#$%&'()*+,./:;<=>?@[\\]^`{|}"
HIGH = "€‚ƒ„…†‡ˆ‰Š‹ŒŽ‘’“”•–—˜™š›œžŸ ¡¢£©®±²¼¾ÀÅÒÖÃäëïöüþ"
YDIA = "ÿ"
TILDE = "~"
# characters outside windows-1252, incl. combining marks (they compose with a preceding base letter
# under NFC), compatibility code points whose NFC/NFKC image *is* in cp1252 (KELVIN, ANGSTROM, Greek
# question mark, OHM, Greek mu, fi-ligature, fullwidth A), C1 controls and a zero-width space
OUTSIDE = ("\u0100\u0141\u03bb\u0416\u4e2d\U0001f600\x81\x8d\x90\u200b"
           "\u0301\u0308\u0300\u0327\u030a\u0301\u0308\u212a\u212b\u037e\u2126\u03bc\ufb01\uff21"
           "\x80\x85\x9f\ud800\udfff\ufffd\ufeff\u00ad")


def rand_int(rng, kind, allow_over=False):
    lim = LIMITS[kind]
    r = rng.random()
    if allow_over and r < 0.25:
        return rng.choice([lim, lim + 1, lim * 2, lim * B, 2 ** 31, 2 ** 32, 2 ** 40, 10 ** 18, lim + rng.randrange(1000)])
    if r < 0.5:
        cands = [0, 1, 2, 126, 127, 128, 252, 253, 254, 255, 256, B * B - 1, B * B, B ** 3 - 1, B ** 3, lim - 1, lim - 2, lim // 2]
        v = rng.choice(cands)
        return v if v < lim else lim - 1
    return rng.randrange(lim)


def rand_string(rng, maxlen=12, classes=("ascii", "high", "ydia", "tilde", "outside"), minlen=0):
    n = rng.randrange(minlen, maxlen + 1)
    pools = {"ascii": ASCII, "high": HIGH, "ydia": YDIA, "tilde": TILDE, "outside": OUTSIDE}
    mode = rng.random()
    if mode < 0.35:
        pool = ASCII if "ascii" in classes else pools[classes[0]]
        return edges(rng, "".join(rng.choice(pool) for _ in range(n)))
    out = []
    for _ in range(n):
        c = rng.choice(classes)
        out.append(rng.choice(pools[c]))
    return edges(rng, "".join(out))


EDGE = "\x00 \n\t\r\x7f\x01"


def edges(rng, s):
    """Sometimes put a NUL / blank / control character at the end, the start or inside: whatever trims, strips or
    treats such characters as terminators shows on exactly these strings."""
    if s and rng.random() < 0.12:
        r = rng.random()
        c = rng.choice(EDGE)
        if r < 0.5:
            s = s[:-1] + c
        elif r < 0.8:
            s = c + s[1:]
        else:
            k = rng.randrange(len(s))
            s = s[:k] + c + s[k + 1:]
        if rng.random() < 0.3 and len(s) > 1:
            s = s[:-2] + c + c
    return s


class MyInt(int):
    """An int subclass (user code passes IntEnum members, numpy-like ints, bools ... where an int is expected)."""


def intlike(rng, v):
    """Occasionally wrap a non-negative int into another int type with the same value."""
    r = rng.random()
    if r < 0.03:
        return MyInt(v)
    if r < 0.05 and v in (0, 1):
        return bool(v)
    return v
