"""SpecGen: random, valid-by-construction eo-protocol specification trees (DESIGN 3.2, Appendix A).

Emits one object body at a time while carrying its own context (chunked?, optional reached?, dummy
reached?, scope, switched fields).  What it emits is re-checked by the independent grammar model
vf/ref/grammar.py before use.  `wu_bias` only shifts probabilities towards wire-unambiguous shapes;
membership of C01's domain is decided by vf/gen/wu.py, not here."""
import zlib

from vf.gen import spec as S
from vf.ref import numbers
from vf.ref.interp import Interp

PASCAL = ["Alpha", "Bravo", "Charlie", "Delta", "Echo", "Foxtrot", "Golf", "Hotel", "India", "Juliet", "Kilo", "Lima", "Mike",
          "November", "Oscar", "Papa", "Quebec", "Romeo", "Sierra", "Tango", "Uniform", "Victor", "Whiskey", "Xray", "Yankee", "Zulu",
          "NPCInfo", "HTTPThing", "Map2D", "ItemXY", "AB", "Abc9", "BigCoords", "CharItem", "EOFile", "Q", "SpellA1", "TileSpecRow"]
SNAKE = ["id", "amount", "name", "title", "level", "x", "y", "coords", "kind", "flags", "count", "hp", "tp", "message", "items", "spells",
         "player_id", "map_id", "graphic", "spec", "rid", "size", "total", "mode", "code", "reply_code", "version", "weight", "usage",
         "gold", "npc_index", "session", "emote", "direction", "tiles", "rows", "warp", "key", "slot", "page", "news", "guild_tag"]
# names that look like the generated methods' own locals / parameters (a generator that renames its locals
# must still keep them apart from field names); none of them is a local of the pinned generator
LOCAL_LIKE = ["old_mode", "position", "start_position", "remaining", "chunked", "old_length", "writer_length", "value", "values",
              "length", "index", "start", "end", "mode", "obj", "instance", "buffer", "offset", "field", "self_", "cls", "other"]
MEMBERS = ["Ok", "None", "Error", "Busy", "Player", "Spy", "Down", "Left", "Up", "Right", "Exists", "Created", "Changed", "Denied",
           "Temporary", "Permanent", "Normal", "Pk", "Wall", "Chest", "General", "Heal", "Light", "Dark", "EnterGame", "Yes", "No"]
RESERVED_TYPES = {"packetfamily", "packetaction", "eoreader", "eowriter", "serializationerror", "protocolenummeta", "packetsequencer",
                  "sequencestart", "generated", "intenum", "optional", "union", "iterable", "cast", "annotations"}
# a type whose module name equals a sub-directory of its own directory would collide with that package
RESERVED_BY_PATH = {"": {"net", "map", "pub"}, "net": {"client", "server"}, "pub": {"server"}}
# names that become awkward module / attribute names somewhere in the package (C18, C20)
AWKWARD = ["Data", "Encrypt", "Protocol", "Net2", "MapX", "Pub9", "Enum", "Int", "Type", "List", "Dict", "Reader", "Writer",
           "Client", "Server", "PACKET", "Net", "Map", "Pub", "Sys", "Abc", "Typing",
           # names whose module path contains text a path / extension manipulation might trip over
           "Pyramid", "PyThing", "XmlDoc", "Init", "Generated", "Eolib",
           # names whose module (the lower-case word) has the name of a builtin: star-imports put that module into
           # the package namespaces, where hand-written code may call the builtin
           "Globals", "Str", "Len", "Range", "Set", "Open", "Bytes", "Filter", "Sorted", "Getattr", "Vars", "Dir", "Print",
           "Object", "Tuple", "Zip", "Isinstance", "Setattr", "Hasattr", "Any", "All", "Iter", "Next", "Super"]
COMMENT_BITS = ["The thing", "used for <b>stuff</b> & more", "it's > 9", "line one\nline two", "100% of 'it'", "a < b", "§ ünï ©"]
AWKWARD_COMMENTS = ["The thing", 'Shown in the log as "quoted"', "ends with a backslash \\", "kept in C:\\new\\x files, see \\u and \\N", 'three quotes """ inside',
                    "tab\there", "it's the 'last' one'", '"', "\\", "{braces} %s %(name)s", "back\\slash inside",
                    'four """" and five """"" quotes in a row', "three single \'\'\' quotes", 'ends with three """', '""" starts with three', 'a backslash before quotes \\"""']
INT_KINDS = ["byte", "char", "short", "three", "int"]


class Ctx:
    def __init__(self, chunked=False, opt=False, depth=0):
        self.chunked = chunked
        self.opt = opt
        self.dummy = False
        self.scope = {}
        self.switched = set()
        self.depth = depth
        self.tail_open = False  # wu bias only


class SpecGen:
    def __init__(self, rng, wu_bias=False, size=1.0, awkward_names=False, allow_empty=False, shuffle_files=False):
        self.shuffle_files = shuffle_files
        self.allow_empty = allow_empty
        self.rng = rng
        self.wu = wu_bias
        self.size = size
        self.spec = S.Spec()
        self.type_names = set()
        self.interp = None
        self.features = {}
        self.awkward = awkward_names

    # ------------------------------------------------------------ helpers
    def feat(self, name):
        self.features[name] = self.features.get(name, 0) + 1

    def chance(self, p):
        return self.rng.random() < p

    def type_name(self, path=""):
        rng = self.rng
        for _ in range(200):
            n = rng.choice(PASCAL) + (str(rng.randrange(2, 99)) if rng.random() < 0.6 else "")
            if self.awkward and rng.random() < 0.35:
                n = rng.choice(AWKWARD)
            if n.lower() not in self.type_names and n.lower() not in RESERVED_TYPES and n.lower() not in RESERVED_BY_PATH.get(path, ()) and n != "Packet":
                self.type_names.add(n.lower())
                return n
        raise RuntimeError("name pool exhausted")

    def field_name(self, ctx):
        rng = self.rng
        for _ in range(200):
            n = rng.choice(SNAKE) + (str(rng.randrange(2, 9)) if rng.random() < 0.4 else "")
            if rng.random() < 0.06:
                n = rng.choice(LOCAL_LIKE)
            if n not in ctx.scope and n + "_data" not in ctx.scope and not any(n == k + "_data" or n == k + "_length" for k in ctx.scope):
                return n
        raise RuntimeError("field name pool exhausted")

    def comment(self):
        c = self.rng.choice(COMMENT_BITS) if self.chance(0.25) else None
        if c == COMMENT_BITS[0]:
            # free text that is awkward inside a Python string literal takes turns with the plain one (chosen by a
            # counter, so that the random stream - and with it every generated tree - stays what it was)
            if not hasattr(self, "_comments"):
                # every tree starts somewhere else in the list (derived from the generator state without drawing)
                self._comments = zlib.crc32(repr(self.rng.getstate()[1][:3]).encode())
            self._comments += 1
            c = AWKWARD_COMMENTS[self._comments % len(AWKWARD_COMMENTS)]
        return c

    def refresh(self):
        self.interp = Interp(self.spec)

    # ------------------------------------------------------------ top level
    def generate(self):
        rng = self.rng
        spec = self.spec
        # the two enums every tree needs
        fam = S.Enum("PacketFamily", rng.choice(["byte", "char"]), self.enum_values("byte", rng.randrange(2, 6)), self.comment())
        act = S.Enum("PacketAction", rng.choice(["byte", "char"]), self.enum_values("byte", rng.randrange(2, 6)), self.comment())
        order = ["", "net", "map", "pub", "pub/server", "net/client", "net/server"]
        if self.shuffle_files:
            # types may only refer to types created earlier, so a shuffled creation order yields cross-file
            # references in every direction (e.g. a map type using a net/server struct)
            rest = order[:]
            rng.shuffle(rest)
            order = rest
            self.feat("files-created-in-shuffled-order")
        spec.files["net"].enums += [fam, act]
        for path in order:
            f = spec.files[path]
            n_enums = rng.randrange(0, 3) if path else rng.randrange(1, 4)
            for _ in range(int(n_enums * self.size + 0.5)):
                f.enums.append(self.gen_enum(path))
            self.refresh()
            n_structs = rng.randrange(0, 4)
            for _ in range(int(n_structs * self.size + 0.5)):
                s = S.Struct(self.type_name(path), [], self.comment())
                s.body = self.gen_body(Ctx(), rng.randrange(1, 7) if not (self.allow_empty and self.chance(0.08)) else 0)
                f.structs.append(s)
                self.refresh()
            if path in ("net/client", "net/server"):
                pairs = set()
                for _ in range(rng.randrange(1, 4)):
                    fa, ac = rng.choice(fam.values)[0], rng.choice(act.values)[0]
                    if (fa, ac) in pairs:
                        continue
                    pairs.add((fa, ac))
                    p = S.Packet(fa, ac, [], self.comment())
                    p.body = self.gen_body(Ctx(), rng.randrange(1, 9) if not (self.allow_empty and self.chance(0.08)) else 0)
                    f.packets.append(p)
        self.refresh()
        return spec

    def enum_values(self, wire, n):
        rng = self.rng
        lim = numbers.LIMIT[wire]
        names = rng.sample(MEMBERS, min(n, len(MEMBERS)))
        ords = set()
        while len(ords) < len(names):
            ords.add(rng.choice([rng.randrange(0, 12), rng.randrange(0, min(lim, 260)), lim - 1 - rng.randrange(0, 3)]) % lim)
        return [(nm, o, self.comment()) for nm, o in zip(names, sorted(ords))]

    def gen_enum(self, path=""):
        wire = self.rng.choice(["byte", "char", "char", "char", "short", "short", "three", "int"])
        self.feat("enum:" + wire)
        return S.Enum(self.type_name(path), wire, self.enum_values(wire, self.rng.randrange(1, 7)), self.comment())

    # ------------------------------------------------------------ types
    def enums_available(self):
        return [e for _n, e, _p in self.spec.enums() if e.name not in ("PacketFamily", "PacketAction") or self.chance(0.3)]

    def structs_available(self):
        return [d for n, (d, _p) in self.spec.types().items() if not hasattr(d, "values")]

    def scalar_type(self, allow_unbounded=True, allow_struct=True):
        """-> (type string, kind) for a plain field."""
        rng = self.rng
        r = rng.random()
        if r < 0.38:
            return rng.choice(INT_KINDS), "int"
        if r < 0.46:
            return ("bool" if self.chance(0.6) else "bool:" + rng.choice(INT_KINDS)), "bool"
        if r < 0.60:
            es = self.enums_available()
            if es:
                e = rng.choice(es)
                if self.chance(0.2):
                    self.feat("enum-override")
                    return e.name + ":" + rng.choice([k for k in INT_KINDS if k != e.name]), "enum"
                return e.name, "enum"
        if r < 0.78:
            return rng.choice(["string", "encoded_string"]), "str"
        if r < 0.82 and allow_unbounded:
            return "blob", "blob"
        if allow_struct and self.depth_ok:
            ss = self.structs_available()
            if ss:
                return rng.choice(ss).name, "struct"
        return rng.choice(INT_KINDS), "int"

    depth_ok = True

    # ------------------------------------------------------------ bodies
    def gen_body(self, ctx, n):
        body = []
        self._emit(body, ctx, n)
        if not body and n > 0 and ctx.depth == 0:
            # never empty by accident: an empty top-level body is a feature chosen explicitly (allow_empty)
            body.append(S.Field(self.field_name(ctx), "char"))
        return body

    def _emit(self, body, ctx, n):
        rng = self.rng
        guard = 0
        while n > 0 and not ctx.dummy and guard < 60:
            guard += 1
            if self.wu and ctx.tail_open:
                if ctx.chunked and self.chance(0.7):
                    body.append(S.Break())
                    ctx.opt = False
                    ctx.tail_open = False
                    n -= 1
                    continue
                break
            if ctx.opt and ctx.chunked and self.chance(0.25):
                # optional tails are per chunk: let a new chunk (possibly with its own optional tail) follow
                self.emit_break(body, ctx)
                n -= 1
                continue
            r = rng.random()
            if r < 0.42:
                ok = self.emit_field(body, ctx)
            elif r < 0.56:
                ok = self.emit_array(body, ctx)
            elif r < 0.66:
                ok = self.emit_length_pair(body, ctx)
            elif r < 0.76:
                ok = self.emit_switch(body, ctx)
            elif r < 0.84:
                ok = self.emit_chunked(body, ctx, n)
            elif r < 0.92:
                ok = self.emit_break(body, ctx)
            elif r < 0.96:
                ok = self.emit_unnamed(body, ctx)
            else:
                ok = self.emit_dummy(body, ctx)
            if ok:
                n -= 1

    def string_shape(self, ctx, optional):
        """-> (length, padded) for a string field."""
        rng = self.rng
        r = rng.random()
        if r < 0.4:
            return None, False
        n = rng.randrange(1, 9)
        if r < 0.75:
            return n, False
        return n, True

    def emit_field(self, body, ctx):
        rng = self.rng
        optional = ctx.opt or self.chance(0.08)
        tstr, kind = self.scalar_type()
        name = self.field_name(ctx)
        length, padded, value = None, False, None
        if kind == "str":
            length, padded = self.string_shape(ctx, optional)
            if not optional and self.chance(0.08):
                # named hard-coded string
                value = rng.choice(["OK", "NO", "GO", "k", "EMF", "a b", "x~y"])
                length = len(value) if self.chance(0.4) else None
                padded = False
                self.feat("named-hardcoded-string")
        elif kind == "int" and not optional and self.chance(0.03):
            value = str(rng.randrange(0, 250))
            self.feat("named-hardcoded-int")
        elif kind == "bool" and not optional and self.chance(0.15):
            value = rng.choice(["true", "false"])
            self.feat("named-hardcoded-bool")
        if self.wu and (kind == "blob" or (kind == "str" and length is None) or (kind == "struct" and not self.interp.bounded(tstr))):
            ctx.tail_open = True
        if self.wu and optional:
            ctx.tail_open = ctx.tail_open or False
        body.append(S.Field(name, tstr, length, padded, optional, value, self.comment()))
        ctx.scope[name] = {"kind": "field", "type": tstr, "tkind": kind, "optional": optional, "value": value}
        if optional:
            ctx.opt = True
            self.feat("optional-field")
        self.feat("field:" + kind)
        if padded:
            self.feat("padded-string")
        return True

    def emit_unnamed(self, body, ctx):
        if ctx.opt:
            return False
        rng = self.rng
        r = rng.random()
        if r < 0.5:
            k = rng.choice(INT_KINDS)
            v = rng.choice([0, 1, 112, 254, 255 if k == "byte" and not self.wu else 7])
            body.append(S.Field(None, k, value=str(v)))
        elif r < 0.6:
            body.append(S.Field(None, rng.choice(["bool", "bool:short"]), value=rng.choice(["true", "false"])))
        else:
            v = rng.choice(["EIF", "EMF", "k", "ok go", "N"])
            t = rng.choice(["string", "encoded_string"])
            if self.chance(0.5):
                body.append(S.Field(None, t, length=len(v), value=v))
            else:
                body.append(S.Field(None, t, value=v))
                if self.wu:
                    ctx.tail_open = True
        self.feat("unnamed-field")
        return True

    def element_type(self, ctx, delimited):
        """Element type for an array: bounded unless delimited, never zero-size."""
        rng = self.rng
        for _ in range(20):
            tstr, kind = self.scalar_type(allow_unbounded=delimited)
            if kind == "str" and not delimited:
                continue
            if kind == "blob" and not delimited:
                continue
            if kind == "struct":
                if not delimited and not self.interp.bounded(tstr):
                    continue
                if self.interp.fixed_size(tstr) == 0:
                    continue
            return tstr, kind
        return rng.choice(INT_KINDS), "int"

    def emit_array(self, body, ctx, length_ref=None):
        rng = self.rng
        optional = ctx.opt or self.chance(0.06)
        delimited = ctx.chunked and self.chance(0.45)
        tstr, kind = self.element_type(ctx, delimited)
        name = self.field_name(ctx)
        if length_ref is not None:
            length = length_ref
        else:
            length = None if self.chance(0.55) else rng.randrange(0, 5)
        trailing = True if not delimited else self.chance(0.65)
        body.append(S.Array(name, tstr, length, optional, delimited, trailing, self.comment()))
        ctx.scope[name] = {"kind": "array", "type": tstr, "tkind": kind, "optional": optional}
        if optional:
            ctx.opt = True
            self.feat("optional-array")
        if self.wu and (length is None or (delimited and not trailing and kind in ("str", "blob"))):
            ctx.tail_open = True
        self.feat("array:" + ("delimited-" + ("trailing" if trailing else "separating") if delimited else "plain") + (":unsized" if length is None else ":numeric" if isinstance(length, int) else ":lengthref"))
        return True

    def emit_length_pair(self, body, ctx):
        """A <length> followed (possibly after one plain field or a break) by the item referencing it."""
        rng = self.rng
        optional = ctx.opt
        name = self.field_name(ctx)
        wire = rng.choice(["byte", "char", "char", "char", "short", "short", "three", "int"])
        offset = rng.choice([0, 0, 0, 0, 1, 2, 3, -1, -2])
        ln = name + "_length" if name + "_length" not in ctx.scope and self.chance(0.0) else name + "_count"
        if ln in ctx.scope:
            return False
        body.append(S.Length(ln, wire, offset, optional))
        ctx.scope[ln] = {"kind": "length", "type": wire, "optional": optional}
        ctx.scope[name] = {"kind": "reserved", "optional": optional}
        if optional:
            ctx.opt = True
        if not optional and self.chance(0.12):
            if ctx.chunked and self.chance(0.5):
                body.append(S.Break())
                ctx.opt = False
            elif zlib.crc32(ln.encode()) % 3 == 0 and self._switch_in_gap(body, ctx):
                # a whole switch stands between the length and the item that refers to it
                self.feat("length-gap-switch")
            elif zlib.crc32(ln.encode()) % 6 == 1 and self._switch_in_gap(body, ctx, on_length=ln):
                # ... a switch on the count itself
                self.feat("switch-on-length")
            else:
                k = rng.choice(INT_KINDS)
                n2 = self.field_name(ctx)
                body.append(S.Field(n2, k))
                ctx.scope[n2] = {"kind": "field", "type": k, "tkind": "int", "optional": False, "value": None}
            self.feat("length-gap")
        if self.chance(0.5):
            # string bound to the length
            t = rng.choice(["string", "encoded_string"])
            opt2 = ctx.opt
            body.append(S.Field(name, t, ln, self.chance(0.15), opt2, None, self.comment()))
            ctx.scope[name] = {"kind": "field", "type": t, "tkind": "str", "optional": opt2, "value": None}
            self.feat("string-lengthref")
        else:
            save_opt = ctx.opt
            delimited = ctx.chunked and self.chance(0.3)
            tstr, kind = self.element_type(ctx, delimited)
            trailing = True if not delimited else self.chance(0.6)
            body.append(S.Array(name, tstr, ln, save_opt, delimited, trailing, self.comment()))
            ctx.scope[name] = {"kind": "array", "type": tstr, "tkind": kind, "optional": save_opt}
            if self.wu and delimited and not trailing and kind in ("str", "blob"):
                ctx.tail_open = True
            self.feat("array-lengthref" + ("-delimited" if delimited else ""))
        self.feat("length:offset%+d" % offset if offset else "length:offset0")
        return True

    def _switch_in_gap(self, body, ctx, on_length=None):
        """emit_switch, undone again when it would leave the enclosing body in a state where no plain item may follow."""
        mark = len(body)
        saved = (ctx.opt, ctx.dummy, ctx.tail_open, set(ctx.switched), dict(ctx.scope))
        if self.emit_switch(body, ctx, on_length) and not (ctx.opt or ctx.dummy or ctx.tail_open):
            return True
        del body[mark:]
        ctx.opt, ctx.dummy, ctx.tail_open = saved[:3]
        ctx.switched.clear()
        ctx.switched.update(saved[3])
        ctx.scope.clear()
        ctx.scope.update(saved[4])
        return False

    def emit_dummy(self, body, ctx):
        # allowed as sole instruction, or after only possibly-empty items (optional fields, unsized arrays)
        def maybe_empty(ins):
            return (ins.kind in ("field", "array") and ins.optional) or (ins.kind == "array" and ins.length is None and not ins.delimited)
        if body and not all(maybe_empty(i) for i in body):
            return False
        if self.wu and body:
            return False
        if ctx.depth == 0 and not body and not self.chance(0.3):
            return False
        rng = self.rng
        if self.chance(0.6):
            body.append(S.Dummy(rng.choice(["byte", "char", "short"]), str(rng.randrange(0, 250))))
        else:
            body.append(S.Dummy("string", rng.choice(["k", "no", "Z"])))
        ctx.dummy = True
        self.feat("dummy")
        return True

    def emit_switch(self, body, ctx, on_length=None):
        rng = self.rng
        if ctx.depth >= 3:
            return False
        cands = [n for n, i in ctx.scope.items() if i["kind"] == "field" and i.get("tkind") in ("int", "enum") and not i["optional"] and i.get("value") is None and n not in ctx.switched]
        if on_length is not None:
            cands = [on_length]
        if not cands:
            return False
        fname = rng.choice(cands)
        info = ctx.scope[fname]
        if fname + "_data" in ctx.scope:
            return False
        t = self.interp.resolve(info["type"])
        lim = numbers.LIMIT[t.wire]
        ncases = rng.randrange(1, 5)
        cases = []
        used = set()
        if t.kind == "enum":
            members = [v for v in t.decl.values]
            rng.shuffle(members)
            for v in members[:ncases]:
                if v[1] in used:
                    continue
                used.add(v[1])
                cases.append(S.Case(v[0], False, [], self.comment()))
            if self.chance(0.3):
                declared = {v[1] for v in t.decl.values}
                o = next((x for x in (0, 1, 2, 3, 9, 17, 200) if x not in declared and x < lim), None)
                if o is not None:
                    cases.append(S.Case(str(o), False, [], None))
                    self.feat("case-unnamed-ordinal")
        else:
            pool = [x for x in (0, 1, 2, 3, 4, 5, 9, 100, 252) if x < lim]
            for v in rng.sample(pool, min(ncases, len(pool))):
                cases.append(S.Case(str(v), False, [], self.comment()))
        if not cases:
            return False
        if self.chance(0.35):
            cases.append(S.Case(None, True, [], self.comment()))
            self.feat("case-default")
        opt_after, dummy_after = ctx.opt, False
        tail_after = False
        for c in cases:
            cc = Ctx(ctx.chunked, ctx.opt, ctx.depth + 1)
            if not self.chance(0.2):
                c.body = self.gen_body(cc, rng.randrange(1, 5))
            if not c.body:
                self.feat("case-empty")
            opt_after = opt_after or cc.opt
            dummy_after = dummy_after or cc.dummy
            tail_after = tail_after or cc.tail_open or cc.opt
        body.append(S.Switch(fname, cases))
        ctx.switched.add(fname)
        ctx.scope[fname + "_data"] = {"kind": "casedata", "optional": False}
        ctx.opt = opt_after
        ctx.dummy = dummy_after
        if self.wu and tail_after:
            ctx.tail_open = True
        self.feat("switch:" + t.kind)
        if ctx.depth >= 1:
            self.feat("switch-nested")
        return True

    def emit_chunked(self, body, ctx, n):
        rng = self.rng
        if ctx.depth >= 3 and ctx.chunked:
            return False
        was = ctx.chunked
        inner = []
        ctx.chunked = True
        self._emit(inner, ctx, rng.randrange(1, 7))
        ctx.chunked = was
        if not inner:
            return False
        body.append(S.Chunked(inner))
        self.feat("chunked-nested" if was else "chunked")
        return True

    def emit_break(self, body, ctx):
        if not ctx.chunked:
            return False
        body.append(S.Break())
        ctx.opt = False
        ctx.tail_open = False
        self.feat("break")
        return True
