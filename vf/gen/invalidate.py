"""One-violation object mutants (C16's catalogue; also C15's 'validation error part-way' workload).

sites(interp, obj) enumerates (path, operator) pairs for a valid reference-side object; apply() returns
a deep copy with exactly that one declaration-violating change.  Whether the result really is invalid
is decided by the reference interpreter, not here."""
import copy

from vf.ref import numbers
from vf.ref.interp import Obj

STRING_STYLES = ("", ":ff-tail", ":ff-only", ":mixed")
OPERATORS = ("required-none", "fixed-string-short", "fixed-string-long", "padded-string-long", "lengthref-string-long",
             "lengthref-array-long", "fixed-array-short", "fixed-array-long", "int-at-limit", "int-far-above", "int-astronomical", "enum-at-limit",
             "array-element-at-limit", "casedata-none", "casedata-wrong-class", "casedata-for-empty-case", "casedata-namesake-class")


def case_paths(interp):
    """simple class name -> every case-data class path of the specification carrying it (Shape.KindData1 and
    Other.KindData1, or Shape.KindData2.KindData1, are namesakes)."""
    cached = getattr(interp, "_case_paths", None)
    if cached is not None:
        return cached
    out = {}

    def visit(body, path):
        for ins in body:
            if ins.kind == "chunked":
                visit(ins.body, path)
            elif ins.kind == "switch":
                for c in ins.cases:
                    if c.body:
                        sub = path + (interp.case_class_name(ins.field, c),)
                        out.setdefault(sub[-1], []).append(sub)
                        visit(c.body, sub)
    for name, body in interp.bodies.items():
        visit(body, (name,))
    interp._case_paths = out
    return out


def _instrs(interp, cls):
    body, _c, _i = interp.body_of(tuple(cls))
    out = []
    lens = {}

    def visit(b):
        for ins in b:
            if ins.kind == "length":
                lens[ins.name] = ins
            if ins.kind in ("field", "array", "switch"):
                out.append(ins)
            elif ins.kind == "chunked":
                visit(ins.body)
    visit(body)
    return out, lens


def sites(interp, obj, path=(), heavy=False):
    """-> list of (path, operator, instr) where path addresses the Obj holding the field."""
    out = []
    instrs, lens = _instrs(interp, obj.cls)
    for ins in instrs:
        if ins.kind == "switch":
            cd = obj.fields.get(ins.field + "_data")
            case = interp.select_case(ins, interp.switch_value(ins, obj), obj.cls)
            if case is not None:
                if case.body:
                    out.append((path, "casedata-none", ins))
                    others = [c for c in ins.cases if c.body and c is not case]
                    if others:
                        out.append((path, "casedata-wrong-class", ins))
                    want = tuple(obj.cls) + (interp.case_class_name(ins.field, case),)
                    if any(p != want for p in case_paths(interp).get(want[-1], ())):
                        out.append((path, "casedata-namesake-class", ins))
                else:
                    if any(c.body for c in ins.cases):
                        out.append((path, "casedata-for-empty-case", ins))
            if isinstance(cd, Obj):
                out += sites(interp, cd, path + (ins.field + "_data",), heavy)
            continue
        if ins.name is None or getattr(ins, "value", None) is not None:
            continue
        v = obj.fields.get(ins.name)
        t = interp.resolve(ins.type)
        if v is None:
            continue
        lref = lens.get(ins.length) if isinstance(ins.length, str) else None
        if ins.kind == "field":
            if not ins.optional and lref is None:
                out.append((path, "required-none", ins))
            if t.kind in ("str", "estr"):
                if isinstance(ins.length, int):
                    if ins.padded:
                        out += [(path, "padded-string-long" + st, ins) for st in STRING_STYLES]
                    else:
                        out += [(path, "fixed-string-long" + st, ins) for st in STRING_STYLES]
                        if ins.length > 0:
                            out += [(path, "fixed-string-short" + st, ins) for st in STRING_STYLES[:3:2]]
                elif lref is not None:
                    w = interp.resolve(lref.type).wire
                    if w in ("byte", "char", "short") or (heavy and w == "three"):
                        out += [(path, "lengthref-string-long" + st, ins) for st in STRING_STYLES[:3:2]]
            elif t.kind == "int":
                out.append((path, "int-at-limit", ins))
                out.append((path, "int-far-above", ins))
                out.append((path, "int-astronomical", ins))
            elif t.kind == "enum":
                out.append((path, "enum-at-limit", ins))
            elif t.kind == "struct" and isinstance(v, Obj):
                out += sites(interp, v, path + (ins.name,), heavy)
        else:
            if isinstance(ins.length, int):
                out.append((path, "fixed-array-long", ins))
                if ins.length > 0:
                    out.append((path, "fixed-array-short", ins))
            elif lref is not None:
                w = interp.resolve(lref.type).wire
                if w in ("byte", "char") or (heavy and w == "short" and t.kind in ("int", "bool", "enum")):
                    out.append((path, "lengthref-array-long", ins))
            if t.kind in ("int", "enum") and len(v) > 0:
                out.append((path, "array-element-at-limit", ins))
            if t.kind == "struct":
                for i, el in enumerate(v[:2]):
                    if isinstance(el, Obj):
                        out += sites(interp, el, path + ((ins.name, i),), heavy)
    return out


def _locate(root, path):
    o = root
    for p in path:
        if isinstance(p, tuple):
            o = o.fields[p[0]][p[1]]
        else:
            o = o.fields[p]
    return o


def _filler(interp, ins, t, n, like):
    """n array elements / characters shaped like the existing value."""
    if t.kind in ("str", "estr"):
        return "x" * n
    if like:
        return [copy.deepcopy(like[i % len(like)]) for i in range(n)]
    if t.kind in ("int", "enum"):
        return [0] * n
    if t.kind == "bool":
        return [False] * n
    return None


def _text(n, style, limit):
    """n characters: plain filler, a fitting text followed by y-diaeresis (0xFF on the wire - what padding looks
    like), y-diaeresis only, or a mix of the characters the writer treats specially."""
    if style == ":ff-tail":
        keep = max(0, min(limit, n) - 1)
        return "x" * keep + "\xff" * (n - keep)
    if style == ":ff-only":
        return "\xff" * n
    if style == ":mixed":
        return ("\xff y\x00~\xe9" * (n // 6 + 1))[:n]
    return "x" * n


def apply(interp, obj, site, vg=None):
    path, op, ins = site
    style = ""
    if ":" in op:
        op, style = op.split(":")[0], op[op.index(":"):]
    root = copy.deepcopy(obj)
    o = _locate(root, path)
    _instrs_, lens = _instrs(interp, o.cls)
    t = interp.resolve(ins.type) if ins.kind != "switch" else None
    if op == "required-none":
        o.fields[ins.name] = None
    elif op == "fixed-string-short":
        o.fields[ins.name] = _text(ins.length - 1, style, ins.length)
    elif op == "fixed-string-long":
        o.fields[ins.name] = _text(ins.length + 1 + (len(path) % 2), style, ins.length)
    elif op == "padded-string-long":
        o.fields[ins.name] = _text(ins.length + 1 + (len(path) % 3), style, ins.length)
    elif op in ("lengthref-string-long", "lengthref-array-long"):
        ld = lens[ins.length]
        n = interp.max_len_of(ld) + 1
        v = _filler(interp, ins, t, n, o.fields[ins.name] if ins.kind == "array" else None)
        if v is None:
            return None
        if isinstance(v, str):
            v = _text(n, style, n - 1)
        o.fields[ins.name] = v
    elif op in ("fixed-array-short", "fixed-array-long"):
        n = ins.length + (1 if op.endswith("long") else -1)
        v = _filler(interp, ins, t, n, o.fields[ins.name])
        if v is None:
            return None
        o.fields[ins.name] = v
    elif op == "int-at-limit":
        o.fields[ins.name] = numbers.LIMIT[t.wire]
    elif op == "int-far-above":
        o.fields[ins.name] = numbers.LIMIT[t.wire] * 253 + 7
    elif op == "int-astronomical":
        # beyond what a float (2**1024) or a quick int -> str conversion can hold
        o.fields[ins.name] = (2 ** 64 + 1, 2 ** 1024, 10 ** 400, 10 ** 4000)[len(ins.name) % 4]
    elif op == "enum-at-limit":
        o.fields[ins.name] = numbers.LIMIT[t.wire]
    elif op == "array-element-at-limit":
        v = list(o.fields[ins.name])
        v[len(v) // 2] = numbers.LIMIT[t.wire]
        o.fields[ins.name] = v
    elif op == "casedata-none":
        o.fields[ins.field + "_data"] = None
    elif op == "casedata-for-empty-case":
        other = next(c for c in ins.cases if c.body)
        if vg is None:
            return None
        o.fields[ins.field + "_data"] = vg.obj(o.cls + (interp.case_class_name(ins.field, other),), False)
    elif op == "casedata-namesake-class":
        case = interp.select_case(ins, interp.switch_value(ins, o), o.cls)
        want = tuple(o.cls) + (interp.case_class_name(ins.field, case),)
        other = next(p for p in case_paths(interp).get(want[-1], ()) if p != want)
        if vg is None:
            return None
        o.fields[ins.field + "_data"] = vg.obj(other, False)
    elif op == "casedata-wrong-class":
        case = interp.select_case(ins, interp.switch_value(ins, o), o.cls)
        other = next(c for c in ins.cases if c.body and c is not case)
        if vg is None:
            return None
        o.fields[ins.field + "_data"] = vg.obj(o.cls + (interp.case_class_name(ins.field, other),), False)
    return root
