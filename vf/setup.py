"""Offline setup: put icontract beside the checks (into /verif/.deps). Idempotent."""
import os
import subprocess
import sys

ROOT = os.path.dirname(os.path.dirname(os.path.abspath(__file__)))
DEPS = os.path.join(ROOT, ".deps")
WHEELS = "/opt/veriftools/wheels"


def ensure_deps(quiet=True):
    """Install icontract into .deps if missing; return True when importable."""
    if os.path.isdir(os.path.join(DEPS, "icontract")):
        return True
    os.makedirs(DEPS, exist_ok=True)
    lock = os.path.join(DEPS, ".lock")
    import fcntl

    with open(lock, "w") as lk:
        fcntl.flock(lk, fcntl.LOCK_EX)
        if os.path.isdir(os.path.join(DEPS, "icontract")):
            return True
        cmd = [
            sys.executable, "-m", "pip", "install", "--no-index", "--find-links", WHEELS,
            "--target", DEPS, "--no-compile", "--quiet", "icontract",
        ]
        env = dict(os.environ, PIP_NO_INDEX="1", PIP_DISABLE_PIP_VERSION_CHECK="1")
        r = subprocess.run(cmd, env=env, capture_output=True, text=True)
        if r.returncode != 0:
            if not quiet:
                print(r.stdout + r.stderr)
            return False
    return os.path.isdir(os.path.join(DEPS, "icontract"))


def add_deps_to_path():
    if ensure_deps() and DEPS not in sys.path:
        sys.path.append(DEPS)
    try:
        import icontract  # noqa: F401

        return True
    except Exception:
        return False


if __name__ == "__main__":
    ok = ensure_deps(quiet=False)
    print("setup: icontract", "available" if ok else "NOT available (checks fall back to hand-written contracts)")
    os.makedirs(os.path.join(ROOT, "evidence"), exist_ok=True)
    sys.exit(0)
