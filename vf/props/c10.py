"""C10 - packet-encryption primitives are lossless and exactly invertible.

Monitors on the real interleave / deinterleave / flip_msb / swap_multiples (in-place on bytearray):
  perm           position permutation induced by (de)interleave, recovered from position-labelled data,
                 equals the list-based reference and is identical for two differently labelled inputs
  inverse        deinterleave(interleave(x)) == x and interleave(deinterleave(x)) == x
  flip           flip_msb: x -> x ^ 0x80 unless x in {0,128}; involution
  swap           swap_multiples(m>0) == 'reverse each maximal run of multiples'; involution; length,
                 multiset and non-multiple positions preserved; m == 0 identity; m < 0 ValueError
  pipeline       random pipelines undone by the inverses in reverse order
  in-place       every primitive returns None and mutates its argument
"""
import itertools
import random
from collections import Counter

from vf import stage

ID = "C10"
LEVEL = "exploration"
RULE = ("cases are (primitive, data[, multiple]) applications; every length 0..bound is enumerated for the "
        "position permutations (labelled data, two labellings), all 256 byte values for flip_msb, all "
        "multiple/non-multiple patterns up to the pattern bound x a set of multiples, plus seeded-random "
        "data and pipelines; non-trivial = data length >= 2 (or any byte for flip_msb); distinct = distinct "
        "(primitive, data, multiple)")
ASSUMPTIONS = ["reference permutation and run-reversal written independently in list form; cross-checked against the documented examples"]
FLOORS = {"perm": 1, "swap": 1, "flip": 1, "pipeline": 1}


def ref_interleave(xs):
    n = len(xs)
    out = [None] * n
    for k in range((n + 1) // 2):
        out[2 * k] = xs[k]
    for k in range(n // 2):
        out[2 * k + 1] = xs[n - 1 - k]
    return out


def ref_deinterleave(xs):
    n = len(xs)
    out = [None] * n
    for k in range((n + 1) // 2):
        out[k] = xs[2 * k]
    for k in range(n // 2):
        out[n - 1 - k] = xs[2 * k + 1]
    return out


def ref_swap(xs, m):
    out = []
    run = []
    for x in xs:
        if x % m == 0:
            run.append(x)
        else:
            out.extend(reversed(run))
            run = []
            out.append(x)
    out.extend(reversed(run))
    return out



def shards(tier, seed):
    out = _shards(tier, seed)
    # what runs under -O also runs in an interpreter that turns every warning into an error (-W error)
    return out + [dict(s, _pyflags=["-W", "error"]) for s in out if s.get("_pyflags") == ["-O"]]


def _shards(tier, seed):
    if tier == "quick":
        out = [{"kind": "perm", "lo": lo, "hi": lo + 76} for lo in range(0, 301, 76)]
        out += [{"kind": "perm", "lo": n, "hi": n + 1, "big": True} for n in (511, 512, 1000, 4097, 65535, 65536, 65537, 70001)]
        out += [{"kind": "flip"}, {"kind": "flip_pairs", "lo": 0, "hi": 128}, {"kind": "flip_pairs", "lo": 128, "hi": 256}, {"kind": "swap_runs"}, {"kind": "threads", "rounds": 3},
                {"kind": "pipeline", "n": 1500, "part": 77, "_pyflags": ["-O"]}, {"kind": "flip", "_pyflags": ["-OO"]}, {"kind": "perm", "lo": 0, "hi": 40, "_pyflags": ["-O"]}]
        out += [{"kind": "swap_patterns", "maxlen": 10, "part": p, "parts": 4} for p in range(4)]
        out += [{"kind": "swap_random", "n": 5000, "part": p} for p in range(2)]
        out += [{"kind": "pipeline", "n": 2500, "part": p} for p in range(4)]
    else:
        out = [{"kind": "perm", "lo": lo, "hi": lo + 100} for lo in range(0, 5001, 100)]
        out += [{"kind": "flip"}, {"kind": "swap_runs"}, {"kind": "threads", "rounds": 10}] + [{"kind": "flip_pairs", "lo": lo, "hi": lo + 16} for lo in range(0, 256, 16)]
        out += [{"kind": "swap_patterns", "maxlen": 16, "part": p, "parts": 32} for p in range(32)]
        out += [{"kind": "swap_random", "n": 40000, "part": p} for p in range(16)]
        out += [{"kind": "pipeline", "n": 31250, "part": p} for p in range(32)]
    return out


class Mon:
    def __init__(self, ns, rec):
        self.m = ns.encryption_utils
        self.rec = rec

    def call(self, name, data, *a):
        b = bytearray(data)
        self.n = getattr(self, "n", 0) + 1
        if self.n % 3 == 0:
            # the caller keeps a view of its buffer alive: in place means never resized, not even temporarily
            with memoryview(b):
                r = getattr(self.m, name)(b, *a)
            self.rec.count("calls-with-a-live-view-of-the-buffer")
        else:
            r = getattr(self.m, name)(b, *a)
        if r is not None:
            self.rec.violation("in-place", "%s returned %r instead of mutating in place" % (name, r), {"f": name, "data": bytes(data)})
        return bytes(b)


def labelled(n, which):
    if which == 0:
        return bytes(i % 256 for i in range(n))
    if which == 1:
        return bytes((i // 256) % 256 for i in range(n))
    if which == 3:
        return bytes((i // 65536) % 256 for i in range(n))
    return bytes((i * 7 + 3) % 251 for i in range(n))


def run(shard, rec, tier, seed):
    ns = stage.shim()
    mon = Mon(ns, rec)
    kind = shard["kind"]
    # documented examples pin the reference
    assert ref_interleave([0, 1, 2, 3, 4, 5]) == [0, 5, 1, 4, 2, 3] and ref_deinterleave([0, 1, 2, 3, 4, 5]) == [0, 2, 4, 5, 3, 1]
    assert ref_swap([10, 21, 27], 3) == [10, 27, 21]
    if kind == "perm":
        for n in range(shard["lo"], shard["hi"] if shard.get("big") else min(shard["hi"], 5001 if tier == "thorough" else 301)):
            for fname, reff, inv in (("interleave", ref_interleave, "deinterleave"), ("deinterleave", ref_deinterleave, "interleave")):
                outs = []
                for which in (0, 1, 2):
                    x = labelled(n, which)
                    try:
                        y = mon.call(fname, x)
                        z = mon.call(inv, y)
                    except Exception as ex:
                        rec.violation("raises", "%s raised %r at length %d" % (fname, ex, n), {"f": fname, "n": n})
                        break
                    outs.append(y)
                    if list(y) != reff(list(x)):
                        rec.violation("perm", "%s on length %d differs from the reference permutation" % (fname, n), {"f": fname, "n": n, "out": y[:64]})
                    if z != x:
                        rec.violation("inverse", "%s(%s(x)) != x at length %d" % (inv, fname, n), {"f": fname, "n": n})
                    rec.count("perm")
                    rec.count("inverse")
                if len(outs) == 3 and n <= 65536:  # two label bytes identify a position up to 65536
                    # recover the permutation from labellings 0 and 1 and compare it with labelling 2
                    perm = [outs[0][j] + 256 * outs[1][j] for j in range(n)]
                    lab2 = labelled(n, 2)
                    if sorted(perm) != list(range(n)):
                        rec.violation("perm", "%s at length %d is not a permutation of positions" % (fname, n), {"f": fname, "n": n})
                    elif [lab2[p] for p in perm] != list(outs[2]):
                        rec.violation("perm", "%s at length %d: permutation depends on the data" % (fname, n), {"f": fname, "n": n})
                    rec.count("perm-data-independent")
                rec.case((fname, n), nontrivial=n >= 2)
        rec.seen("lengths_exhaustive", "[%d,%d)" % (shard["lo"], shard["hi"]))
        rec.sample({"interleave": "len 7 labelled", "out": list(mon.call("interleave", labelled(7, 0)))})
    elif kind == "flip":
        allb = bytes(range(256))
        y = mon.call("flip_msb", allb)
        for c in range(256):
            want = c if c in (0, 128) else c ^ 0x80
            if y[c] != want:
                rec.violation("flip", "flip_msb maps %d to %d, expected %d" % (c, y[c], want), {"byte": c})
            one = mon.call("flip_msb", bytes([c]))
            two = mon.call("flip_msb", one)
            if two != bytes([c]) or one != bytes([want]):
                rec.violation("flip", "flip_msb not an involution on %d" % c, {"byte": c})
            rec.count("flip")
            rec.case(("flip", c))
        # arguments passed by name
        m = mon.m
        for x in (b"", b"\x01", b"\x03\x06\x07\x09\x0c", bytes(range(1, 40))):
            for name, refv in (("interleave", bytes(ref_interleave(list(x)))), ("deinterleave", bytes(ref_deinterleave(list(x)))), ("swap_multiples", bytes(ref_swap(list(x), 3)))):
                b = bytearray(x)
                try:
                    getattr(m, name)(data=b, multiple=3) if name == "swap_multiples" else getattr(m, name)(data=b)
                except Exception as ex:
                    rec.violation("raises", "%s(data=...) raised %r" % (name, ex), {"data": x})
                    continue
                if bytes(b) != refv:
                    rec.violation("pipeline", "%s(data=%s) gives %s, reference %s" % (name, x.hex(), bytes(b).hex(), refv.hex()), {"data": x, "f": name})
        rec.count("keyword-calls", 12)
        rng = random.Random("C10-flip-%d" % seed)
        for _ in range(300):
            x = bytes(rng.randrange(256) for _ in range(rng.randrange(0, 80)))
            if mon.call("flip_msb", mon.call("flip_msb", x)) != x:
                rec.violation("flip", "flip_msb twice != identity", {"data": x})
            rec.case(("flip", x))
        rec.info["flip_exhaustive"] = "all 256 byte values"
        rec.sample({"flip_msb": [0, 1, 127, 128, 129, 254, 255], "out": list(mon.call("flip_msb", bytes([0, 1, 127, 128, 129, 254, 255])))})
    elif kind == "threads":
        # each thread transforms its own buffers (other lengths, other multiples) and compares with the reference
        from vf.mon import threads as thr

        calls = [0]
        m = mon.m

        def work(tid, rnd):
            r = random.Random("C10-thr-%d-%d" % (rnd, tid))
            out = []
            for k in range(40 if rnd < 100 else 6):
                L = (1500 if rnd < 100 else 120) + tid + 2 * r.randrange(0, 4) + (k % 2)
                x = [r.choice([r.randrange(256), 0, 3, 6, 9, 128, 255]) for _ in range(L)]
                mult = (3, 7, 2, 255)[tid % 4]
                for name, want in (("interleave", ref_interleave(x)), ("deinterleave", ref_deinterleave(x)), ("swap_multiples", ref_swap(x, mult)),
                                   ("flip_msb", [c if c in (0, 128) else c ^ 0x80 for c in x])):
                    b = bytearray(x)
                    m.swap_multiples(b, mult) if name == "swap_multiples" else getattr(m, name)(b)
                    calls[0] += 1
                    if list(b) != want:
                        out.append(("pipeline", "%s on a private %d-byte buffer gave a wrong result while other threads were transforming their own buffers" % (name, L), {"f": name, "length": L, "threads": 4}))
                        return out
            return out
        found, errors = thr.hammer(work, 4, shard["rounds"])
        import os

        f2, e2 = thr.hammer(work, 4, 1, inject=os.path.join(stage.REPO, "src", "eolib", "encrypt"), first_round=100)
        found, errors = found + f2, errors + e2
        rec.count("line-events-with-yield-injection", getattr(thr.hammer, "lines_with_injection", 0))
        for e in errors:
            rec.violation("raises", "a call from a worker thread raised: " + e, {"threads": 4})
        for mech, msg, case in found[:3]:
            rec.violation(mech, msg, case)
        rec.count("calls-from-concurrent-threads", calls[0])
        rec.case(("threads", shard["rounds"]), n=calls[0])
    elif kind == "flip_pairs":
        # all byte pairs (a, b) with a in lo..hi, alone and embedded: a byte's image never depends on its neighbours
        for a in range(shard["lo"], shard["hi"]):
            for b in range(256):
                x = bytes([a, b])
                want = bytes(c if c in (0, 128) else c ^ 0x80 for c in x)
                y = mon.call("flip_msb", x)
                if y != want:
                    rec.violation("flip", "flip_msb(%s) = %s, expected %s" % (x.hex(), y.hex(), want.hex()), {"data": x})
                rec.count("flip")
            x = bytes([a, 0, 128, a, 255, 128, 0, a])
            want = bytes(c if c in (0, 128) else c ^ 0x80 for c in x)
            if mon.call("flip_msb", x) != want or mon.call("flip_msb", want) != x:
                rec.violation("flip", "flip_msb(%s) wrong or not an involution" % x.hex(), {"data": x})
            rec.case(("flip-pairs", a), n=257)
        rec.seen("flip_pairs_exhaustive", "first byte %d..%d x all second bytes" % (shard["lo"], shard["hi"] - 1))
    elif kind == "swap_runs":
        # one run of multiples of every length 0..70 and around 128 / 256 / 1024 / 4096 / 65536, at the start, in the
        # middle and at the end of the data, for several multiples
        for m in (1, 2, 3, 7, 13, 85, 255):
            muls = [v for v in range(256) if v % m == 0]
            non = [v for v in range(256) if v % m != 0] or None
            for r in list(range(0, 71)) + [127, 128, 129, 255, 256, 257, 1023, 1024, 1025, 4096, 65536, 65537]:
                run_ = bytes(muls[i % len(muls)] for i in range(r))
                if non is None:
                    layouts = [run_]
                else:
                    a, b = bytes(non[:3]), bytes(non[-2:])
                    layouts = [run_, a + run_, run_ + b, a + run_ + b, run_ + b + run_]
                for x in layouts:
                    check_swap(mon, rec, x, m)
                rec.case(("swap-run", m, r), n=len(layouts))
        # "multiples 0..255 and beyond": an int has no upper bound; from 256 on only the byte 0 is a multiple
        for m in (256, 257, 2 ** 15, 2 ** 31 - 1, 2 ** 31, 2 ** 32 + 1, 2 ** 63, 2 ** 64, 10 ** 100, 2 ** 1023, 2 ** 1024, 2 ** 1100, 10 ** 400, 10 ** 4000):
            for x in (b"", b"\x00", b"\xff", bytes(range(256)), bytes(range(255, -1, -1)), b"\x01\x00\x00\x02\x00\xff\x00\x00\x00\x80", bytes(5) + b"\xff\xfe" + bytes(3)):
                check_swap(mon, rec, x, m)
            rec.case(("swap-huge", m.bit_length(), m % 1000003), n=7)
            rec.count("huge-multiples")
        # multiple 0 is the identity on everything - also on runs of the bytes that 255 (or any other stand-in) divides
        for x in (b"\x07\x00\xff\x09", b"\x00\xff", b"\xff\x00\x00\xff\x01", bytes(range(256)), bytes([0, 255] * 9 + [3]), bytes([0, 128, 0, 64, 255, 0])):
            check_swap(mon, rec, x, 0)
            rec.count("multiple-zero-on-runs-of-0-and-255")
        rec.case(("swap-zero-runs",), n=6)
        rec.seen("swap_runs", "run lengths 0..70, 127..129, 255..257, 1023..1025, 4096, 65536, 65537")
    elif kind == "swap_patterns":
        mults = list(range(0, 13)) + [255, 256, 1000]
        if tier == "thorough":
            mults = list(range(0, 301)) + [1000, 65536]
        # every pattern of multiple / non-multiple positions up to maxlen, with distinct labels
        idx = 0
        for L in range(0, shard["maxlen"] + 1):
            for pat in itertools.product((0, 1), repeat=L):
                idx += 1
                if idx % shard["parts"] != shard["part"]:
                    continue
                ms = mults if L <= 8 else (mults[:13] if tier == "quick" else mults[::17] + [2, 3])
                for m in ms:
                    check_swap(mon, rec, make_pattern(pat, m), m)
                rec.case(("swap", pat), nontrivial=L >= 2)
        for m in (-1, -2, -3, -255, -256, -10 ** 9, -2 ** 64, -10 ** 400):
            for dat in (b"", b"\x00", b"\x07", b"\x01\x02", b"\x01\x02\x03", b"\x03\x06\x09\x0c", bytes(40)):
                try:
                    mon.call("swap_multiples", dat, m)
                    rec.violation("swap-negative", "swap_multiples accepted multiple %d on %d byte(s) of data" % (m, len(dat)), {"m": m, "data": dat})
                except ValueError:
                    pass
                except Exception as ex:
                    rec.violation("swap-negative", "swap_multiples(%d) raised %r, not ValueError" % (m, ex), {"m": m, "data": dat})
                rec.count("swap-negative")
        rec.seen("patterns_exhaustive", "all multiple/non-multiple layouts of length <= %d (part %d/%d)" % (shard["maxlen"], shard["part"], shard["parts"]))
    elif kind == "swap_random":
        rng = random.Random("C10-swap-%d-%d" % (seed, shard["part"]))
        for _ in range(shard["n"]):
            m = rng.choice([0, 1, 2, 3, 4, 5, 6, 7, 8, 9, 10, 12, 13, 16, 32, 64, 85, 127, 128, 129, 254, 255, 256, 300, rng.randrange(1, 256)])
            L = rng.randrange(0, 60)
            base = [rng.randrange(256) for _ in range(L)]
            if m and rng.random() < 0.6:
                # bias towards runs of multiples
                base = [(b - b % m) % 256 if rng.random() < 0.6 and (b - b % m) % 256 % m == 0 else b for b in base]
            x = bytes(base)
            check_swap(mon, rec, x, m)
            rec.case(("swap", x, m), nontrivial=L >= 2)
        rec.sample({"swap_multiples": list(x), "multiple": m, "out": list(mon.call("swap_multiples", x, m))})
    elif kind == "pipeline":
        rng = random.Random("C10-pipe-%d-%d" % (seed, shard["part"]))
        inv = {"interleave": "deinterleave", "deinterleave": "interleave", "flip_msb": "flip_msb", "swap_multiples": "swap_multiples"}
        for _ in range(shard["n"]):
            L = rng.randrange(0, 200) if rng.random() < 0.9 else rng.randrange(0, 5)
            x = bytes(rng.choice([rng.randrange(256), 0, 128, 255]) for _ in range(L))
            steps = []
            for _ in range(rng.randrange(1, 9)):
                f = rng.choice(list(inv))
                steps.append((f, (rng.choice([0, 1, 2, 3, 5, 6, 7, 8, 10, 13, 255, rng.randrange(0, 300)]),) if f == "swap_multiples" else ()))
            y = x
            try:
                for f, a in steps:
                    y = mon.call(f, y, *a)
                z = y
                for f, a in reversed(steps):
                    z = mon.call(inv[f], z, *a)
            except Exception as ex:
                rec.violation("raises", "pipeline raised %r" % ex, {"data": x, "steps": steps})
                continue
            if z != x or len(y) != len(x):
                rec.violation("pipeline", "pipeline %r not undone by inverses in reverse order" % (steps,), {"data": x, "steps": steps, "encrypted": y, "decrypted": z})
            rec.count("pipeline")
            rec.case(("pipe", x, steps), nontrivial=L >= 2)
        rec.sample({"pipeline": steps, "data": x, "encrypted": y})


def make_pattern(pat, m):
    """Distinctly labelled bytes realising a multiple(1) / non-multiple(0) layout for multiple m."""
    out = []
    k_mul, k_non = 0, 0
    for p in pat:
        if m in (0, 1) or m > 255:
            # m==1: everything is a multiple; m>255: only 0 is a multiple; m==0: identity
            if m > 255 and p:
                out.append(0)
            else:
                k_non += 1
                out.append(k_non % 255 + 1)
        elif p:
            out.append((k_mul * m) % 256 if (k_mul * m) % 256 % m == 0 else 0)
            k_mul = (k_mul + 1) % max(1, 256 // m)
        else:
            v = (k_non * m + 1) % 256
            if v % m == 0:
                v = 1
            out.append(v)
            k_non += 1
    return bytes(out)


def check_swap(mon, rec, x, m):
    try:
        y = mon.call("swap_multiples", x, m)
        z = mon.call("swap_multiples", y, m)
    except Exception as ex:
        rec.violation("raises", "swap_multiples(%s, %d) raised %r" % (x.hex(), m, ex), {"data": x, "m": m})
        return
    rec.count("swap")
    if m == 0:
        if y != x:
            rec.violation("swap-zero", "swap_multiples with multiple 0 changed the data", {"data": x})
        return
    want = bytes(ref_swap(list(x), m))
    if y != want:
        rec.violation("swap", "swap_multiples(%s, %d) = %s, reference (reverse each maximal run) %s" % (x.hex(), m, y.hex(), want.hex()), {"data": x, "m": m, "out": y})
    if z != x:
        rec.violation("swap-involution", "swap_multiples twice != identity for m=%d on %s" % (m, x.hex()), {"data": x, "m": m})
    if len(y) != len(x) or Counter(y) != Counter(x):
        rec.violation("swap-multiset", "swap_multiples changed length or multiset", {"data": x, "m": m, "out": y})
    if any(a % m != 0 and a != b for a, b in zip(x, y)):
        rec.violation("swap-nonmultiple-moved", "a non-multiple changed position", {"data": x, "m": m, "out": y})
