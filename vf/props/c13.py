"""C13 - packet sequencer yields start + (n mod 10) under any update history.

Lock-step monitor: the real PacketSequencer and a counter model receive the same history; after each
next_sequence the returned value must equal (start in force).value + (number of earlier requests mod 10).
Twin peers: a second real sequencer fed the same history (driven lazily, in batches, so that any state
shared between instances would show) must return the same values."""
import copy
import itertools
import random

from vf import stage

ID = "C13"
LEVEL = "exploration"
RULE = ("cases are operation histories over {next_sequence, set_sequence_start(a), set_sequence_start(b)}; all histories "
        "up to the depth bound are enumerated by DFS with object copies (each history distinct), then seeded-random "
        "histories up to 300 operations with arbitrary starts of all SequenceStart kinds; non-trivial = history "
        "contains at least one next_sequence; distinct = distinct (start kinds/values, op sequence)")
ASSUMPTIONS = ["copy.copy of a PacketSequencer is an independent sequencer (used only to share DFS prefixes; the random histories do not rely on it)"]
FLOORS = {"lockstep-next": 1}



def shards(tier, seed):
    from vf import engine

    return engine.with_interpreter_options(_plain_shards(tier, seed), key="kind")


def _plain_shards(tier, seed):
    pairs = [(0, 5), (-6, 3), (240, -2), (10 ** 9, 7)]  # (a, b): starts a and 7*b, negative ones included ("arbitrary start values")
    if tier == "quick":
        out = [{"kind": "dfs", "depth": 9, "a": a, "b": b, "first": f, "pre": pre} for (a, b) in pairs[:2] for f in range(3) for pre in (0, 6, 17)]
        out += [{"kind": "random", "n": 1250, "part": p} for p in range(4)]
        out += [{"kind": "long", "steps": 300000, "part": p} for p in range(2)]
    else:
        out = [{"kind": "dfs", "depth": 13, "a": a, "b": b, "first": f, "second": g, "pre": pre} for (a, b) in pairs[:2] for f in range(3) for g in range(3) for pre in (0, 9)]
        out += [{"kind": "dfs", "depth": 11, "a": a, "b": b, "first": f, "pre": pre} for (a, b) in pairs[2:] for f in range(3) for pre in (0, 5, 18, 27)]
        out += [{"kind": "random", "n": 12500, "part": p} for p in range(16)]
        out += [{"kind": "long", "steps": 6000000, "part": p} for p in range(8)]
    out.append({"kind": "fork"})
    return out


def run(shard, rec, tier, seed):
    ns = stage.shim()
    ss, PS = ns.sequence_start, ns.sequencer.PacketSequencer
    if shard["kind"] == "dfs":
        a = ss.AccountReplySequenceStart.from_value(shard["a"])
        b = ss.InitSequenceStart.from_init_values(shard["b"], 13)  # value = b*7
        init = ss.SequenceStart.zero()
        starts = {"a": a, "b": b}
        pairs_seen = set()
        total = [0]
        prefix = [0] * shard.get("pre", 0) + [shard["first"]] + ([shard["second"]] if "second" in shard else [])

        def apply(seq, model, op, hist):
            # model = (start_value, n)
            sv, n = model
            if op == 0:
                pairs_seen.add((n % 10, "next"))
                try:
                    got = seq.next_sequence()
                except Exception as ex:
                    rec.violation("raises", "next_sequence raised %r after %r" % (ex, hist), {"history": hist})
                    return None
                want = sv + n % 10
                if got != want:
                    rec.violation("lockstep", "request #%d returned %r, model start+n%%10 = %d (start in force %d) after history %r" % (n, got, want, sv, hist),
                                  {"history": hist, "a": shard["a"], "b": shard["b"] * 7})
                    return None
                return (sv, n + 1)
            name = "a" if op == 1 else "b"
            pairs_seen.add((n % 10, "set"))
            seq.set_sequence_start(starts[name])
            return (starts[name].value, n)

        def dfs(seq, model, depth, hist):
            total[0] += 1
            if depth == 0:
                return
            for op in (0, 1, 2):
                s2 = copy.copy(seq)
                m2 = apply(s2, model, op, hist + [op])
                if m2 is not None:
                    dfs(s2, m2, depth - 1, hist + [op])

        seq = PS(init)
        model = (init.value, 0)
        hist = []
        ok = True
        for op in prefix:
            model = apply(seq, model, op, hist + [op])
            hist.append(op)
            if model is None:
                ok = False
                break
        if ok:
            dfs(seq, model, shard["depth"] - len(prefix) + shard.get("pre", 0), hist)
        rec.case(None, n=total[0])
        rec.count("lockstep-next", total[0])
        for p in pairs_seen:
            rec.seen("counter_x_op", "%d:%s" % p)
        rec.seen("dfs", "all histories of %d ops after %d initial requests; starts zero/%d/%d; first ops %r" % (shard["depth"] - len(prefix) + shard.get("pre", 0), shard.get("pre", 0), shard["a"], shard["b"] * 7, prefix[shard.get("pre", 0):]))
        # cross-check that the copies did not hide anything: replay a few full-depth histories on fresh objects
        rng = random.Random("C13-dfs-%r" % (shard,))
        for _ in range(200):
            h = [rng.randrange(3) for _ in range(shard["depth"] + 7)]
            replay(rec, PS, ss, [("next",) if o == 0 else ("set", "account", shard["a"]) if o == 1 else ("set", "init7", shard["b"]) for o in h], 0)
    elif shard["kind"] == "fork":
        # a server that forks a worker per connection: the child process carries on with the sequencer it inherited,
        # exactly where the parent was
        import json
        import os

        for k in (0, 1, 3, 7, 9, 10, 14, 25):
            seq = PS(ss.AccountReplySequenceStart.from_value(150))
            pre = [seq.next_sequence() for _ in range(k)]
            rd, wr = os.pipe()
            pid = os.fork()
            if pid == 0:
                try:
                    os.close(rd)
                    vals = []
                    for j in range(14):
                        if j == 6:
                            seq.set_sequence_start(ss.AccountReplySequenceStart.from_value(33))
                        vals.append(seq.next_sequence())
                    os.write(wr, json.dumps(vals).encode())
                except BaseException as ex:
                    os.write(wr, json.dumps(["child raised %r" % ex]).encode())
                finally:
                    os._exit(0)
            os.close(wr)
            data = b""
            while True:
                chunk = os.read(rd, 65536)
                if not chunk:
                    break
                data += chunk
            os.close(rd)
            os.waitpid(pid, 0)
            try:
                got = json.loads(data.decode())
            except Exception:
                got = ["unreadable: %r" % data[:80]]
            want = [(150 if j < 6 else 33) + (k + j) % 10 for j in range(14)]
            rec.count("forked-children-compared")
            rec.count("lockstep-next", 14)
            rec.case(("fork", k))
            if got != want or pre != [150 + i % 10 for i in range(k)]:
                rec.violation("lockstep", "after %d requests the process forks; the child's next numbers are %r, the model's %r" % (k, got, want), {"requests_before_fork": k})
                return
    elif shard["kind"] == "long":
        # "stay in lockstep indefinitely": one sequencer driven for a very long history (past 2^16, 253^2,
        # 10^5 ... requests) with rare updates; every value compared with the counter model
        rng = random.Random("C13-long-%d-%d" % (seed, shard["part"]))
        start = ss.SequenceStart.zero()
        seq = PS(start)
        sv, n = start.value, 0
        steps = shard["steps"]
        next_update = rng.randrange(1, 5000)
        for i in range(steps):
            if i == next_update:
                st = make_start(ss, rng.choice(["account", "init7", "ping", "simple"]), rng.choice([0, 3, 240, 1757, -5, rng.randrange(0, 1757)]))
                seq.set_sequence_start(st)
                sv = st.value
                next_update = i + rng.randrange(1, 20000)
            got = seq.next_sequence()
            if got != sv + n % 10:
                rec.violation("lockstep", "request #%d of a long history returned %r, expected start %d + %d" % (n, got, sv, n % 10), {"requests": n, "start": sv})
                break
            n += 1
        rec.case(("long", shard["part"], steps))
        rec.count("lockstep-next", n)
        rec.count("longest-history-requests", 0)
        rec.seen("long-histories", "%d requests" % n)
        rec.sample({"long_history_requests": n})
    else:
        rng = random.Random("C13-rand-%d-%d" % (seed, shard["part"]))
        faulty_histories(rec, PS, ss, rng, max(50, shard["n"] // 10))
        for _ in range(shard["n"]):
            L = rng.randrange(1, 300)
            pset = rng.choice([0.05, 0.2, 0.5, 0.9])
            h = []
            for _ in range(L):
                if rng.random() < pset:
                    kind = rng.choice(["zero", "account", "init", "init7", "ping", "simple", "init-ab", "ping-ab", "init-raw", "ping-raw"])
                    v = rng.choice([0, 1, 9, 10, 240, 1757, 2 ** 31, 10 ** 12, rng.randrange(0, 2000), -1, -6, -9, -1757, -rng.randrange(1, 30),
                                    2 ** 53 + 1, 2 ** 63 - 1, 2 ** 64 + 3, 10 ** 30 + 1, -(2 ** 53) - 3, 10 ** 16 + rng.randrange(100)])
                    if h and h[-1][0] == "set" and rng.random() < 0.5:
                        # the previous update's sibling: other class, same components / same number
                        pk, v = h[-1][1], h[-1][2]
                        kind = {"init-ab": "ping-ab", "ping-ab": "init-ab", "init-raw": "ping-raw", "ping-raw": "init-raw", "account": "simple", "simple": "account"}.get(pk, kind)
                    h.append(("set", kind, v))
                else:
                    h.append(("next",))
            replay(rec, PS, ss, h, rng.choice([0, 0, 5, 1757, 10 ** 9, -4, -13]))
            rec.case(h, nontrivial=any(o[0] == "next" for o in h))
        rec.sample({"history": h[:12], "length": len(h)})


class _Boom(Exception):
    pass


def raising_start(ss, fail_times):
    """A SequenceStart whose value raises for the first `fail_times` reads, then is 77."""
    state = {"n": fail_times}

    class Flaky(ss.SequenceStart):
        @property
        def value(self):
            if state["n"] > 0:
                state["n"] -= 1
                raise _Boom("start value unavailable")
            return 77
    return Flaky()


def faulty_histories(rec, PS, ss, rng, n):
    """Requests that fail (the start in force cannot be read) return nothing, so they do not count:
    the k-th *returned* number is still start + k mod 10."""
    for _ in range(n):
        seq = PS(ss.SequenceStart.zero())
        sv, k = 0, 0
        hist = []
        for _step in range(rng.randrange(5, 60)):
            r = rng.random()
            if r < 0.15:
                fails = rng.randrange(1, 4)
                try:
                    seq.set_sequence_start(raising_start(ss, fails))
                except _Boom:
                    # an implementation may read the value when the start is installed; this edge of the domain
                    # (a start that cannot be read yet) is then not explorable - leave the history
                    rec.count("set-raised-with-unreadable-start")
                    break
                sv = 77
                hist.append(("set-flaky", fails))
            elif r < 0.3:
                v = rng.randrange(0, 1757)
                seq.set_sequence_start(ss.AccountReplySequenceStart.from_value(v))
                sv = v
                hist.append(("set", v))
            else:
                try:
                    got = seq.next_sequence()
                except _Boom:
                    hist.append(("next-failed",))
                    rec.count("failed-requests")
                    continue
                hist.append(("next", got))
                rec.count("lockstep-next")
                if got != sv + k % 10:
                    rec.violation("lockstep-after-failed-request", "returned value #%d is %r, expected %d + %d (failed requests must not consume a counter step): %r" % (k, got, sv, k % 10, hist[-8:]), {"history": hist})
                    break
                k += 1
        rec.case(("faulty", tuple(map(str, hist))))


def make_start(ss, kind, v):
    if kind == "zero":
        return ss.SequenceStart.zero()
    if kind == "account":
        return ss.AccountReplySequenceStart.from_value(v)
    if kind == "init":
        return ss.InitSequenceStart(v, v // 7, v % 7)
    if kind == "init7":
        return ss.InitSequenceStart.from_init_values(v, 13)
    if kind == "ping":
        return ss.PingSequenceStart.from_ping_values(v + 17, 17)
    # starts of different classes built from the same wire components / carrying the same value: an update
    # must take effect whatever the new start "looks like" compared with the one in force
    if kind == "init-ab":
        return ss.InitSequenceStart.from_init_values(20 + abs(v) % 30, 5 + abs(v) % 3)
    if kind == "ping-ab":
        return ss.PingSequenceStart.from_ping_values(20 + abs(v) % 30, 5 + abs(v) % 3)
    if kind == "init-raw":
        return ss.InitSequenceStart(v, 20 + abs(v) % 30, 5 + abs(v) % 3)
    if kind == "ping-raw":
        return ss.PingSequenceStart(v + 1, 20 + abs(v) % 30, 5 + abs(v) % 3)
    return ss.SimpleSequenceStart(v)


def replay(rec, PS, ss, history, init_value):
    """Run one history on a fresh sequencer, its lazily driven twin, and the model."""
    first = ss.SimpleSequenceStart(init_value) if init_value else ss.SequenceStart.zero()
    seq, twin = PS(first), PS(ss.SimpleSequenceStart(init_value) if init_value else ss.SequenceStart.zero())
    sv, n = first.value, 0
    outs = []
    # half-way through, every other history is forked: a snapshot of the running sequencer (copy.deepcopy, or a pickle
    # round trip) is a third peer that must go on exactly like the original
    fork, fork_at, fork_from = None, (len(history) // 2 if len(history) >= 4 and len(history) % 2 == 0 else -1), 0
    for i, op in enumerate(history):
        if i == fork_at:
            try:
                if len(history) % 4 == 0:
                    fork, how = copy.deepcopy(seq), "copy.deepcopy"
                else:
                    import pickle

                    fork, how = pickle.loads(pickle.dumps(seq)), "pickle"
            except Exception as ex:
                rec.seen("snapshots-not-supported", "%s: %s" % (type(ex).__name__, str(ex)[:60]))
                fork = None
            fork_from = len(outs)
        if len(history) % 3 == 0 and i % 2 == 1:
            # looking at the sequencer (a log line, a debugger) is not an operation
            try:
                repr(seq), str(seq), format(seq), "%s %r" % (seq, seq)
                vars(seq)
            except Exception:
                pass
            rec.count("observations-between-operations")
        if op[0] == "next":
            try:
                got = seq.next_sequence()
            except Exception as ex:
                rec.violation("raises", "next_sequence raised %r" % ex, {"history": history[: i + 1]})
                return
            want = sv + n % 10
            rec.count("lockstep-next")
            rec.seen("counter_x_op", "%d:next" % (n % 10))
            if got != want or not isinstance(got, int):
                rec.violation("lockstep", "request #%d returned %r, expected start %d + %d" % (n, got, sv, n % 10), {"history": history[: i + 1], "init": init_value})
                return
            outs.append(got)
            n += 1
        else:
            st = make_start(ss, op[1], op[2])
            rec.seen("counter_x_op", "%d:set" % (n % 10))
            rec.seen("start_kinds", type(st).__name__)
            seq.set_sequence_start(st)
            sv = st.value
    if fork is not None:
        fouts = []
        try:
            for op in history[fork_at:]:
                if op[0] == "next":
                    fouts.append(fork.next_sequence())
                else:
                    fork.set_sequence_start(make_start(ss, op[1], op[2]))
        except Exception as ex:
            fouts.append(repr(ex))
        rec.count("snapshot-peers-compared")
        rec.seen("snapshot-kinds", how)
        if fouts != outs[fork_from:]:
            rec.violation("snapshot-diverges", "a %s snapshot taken after %d operations (%d requests) goes on with %r, the original with %r" % (how, fork_at, fork_from, fouts[:12], outs[fork_from:][:12]),
                          {"history": history, "init": init_value, "forked_at": fork_at})
            return
    # twin driven afterwards in one batch
    touts = []
    for op in history:
        if op[0] == "next":
            touts.append(twin.next_sequence())
        else:
            twin.set_sequence_start(make_start(ss, op[1], op[2]))
    rec.count("twin-compare")
    if touts != outs:
        rec.violation("twin-diverges", "two sequencers fed the same history diverge", {"history": history, "a": outs[:30], "b": touts[:30]})
