"""C15 - (de)serialization leaves reader and writer modes as it found them.

Frame monitor (vf/mon/frames.py) on every generated serialize/deserialize call at every nesting
level: entry mode == exit mode whether the call returns or raises.  Fault enumeration: for each case a
clean run counts the N writer/reader operations and the L line events inside generated methods; the
case is then re-run once per operation index with the proxy raising there, and once per line index
with a sys.monitoring failpoint raising there (lines of `finally:` clauses excluded), plus objects made
invalid at a chosen field (validation error part-way).  Both entry modes."""
import os
import random

from vf import campaign
from vf.gen import invalidate
from vf.gen.valuegen import ValueGen
from vf.mon import frames
from vf.mon.lockstep import Divergence, FuelExhausted, InjectedFault, LockstepReader, TraceWriter
from vf.mon.sysmon import LineFaults
from vf.ref.interp import Invalid, Unsupported
from vf.ref.reader import RefReader
from vf.ref.writer import RefWriter

ID = "C15"
LEVEL = "fault_enumeration"
RULE = ("cases are (spec tree, class, value or byte string, entry mode, fault point): for each clean serialize / deserialize run "
        "every writer / reader operation index and every line event inside generated methods is a fault point and is "
        "enumerated (sampled above a cap per run), plus one-violation invalid objects; non-trivial = the run crosses at least "
        "one nested generated call or chunked section; distinct = distinct (tree, class, case, mode, fault kind, fault index)")
ASSUMPTIONS = [
    "faults are exceptions raised by a reader/writer operation, by validation, or at a statement boundary inside generated methods; an exception thrown into the restoring statement of a finally clause (asynchronous interrupt) is outside the property",
    "a failing mode *assignment* on the reader/writer is not injected: nobody could restore a mode through it",
]
FLOORS = {"frames-recorded": 2000, "fault-runs": 300, "frames-that-raised": 100}
SHARD_TIMEOUT = {"quick": 900, "thorough": 5400}
TREES = {"quick": 32, "thorough": 300}
VALUES = {"quick": 2, "thorough": 3}
CAP = {"quick": 24, "thorough": 60}



def shards(tier, seed):
    from vf import engine

    return engine.with_interpreter_options(_plain_shards(tier, seed))


def _plain_shards(tier, seed):
    return campaign.tree_shards(TREES[tier], 2 if tier == "quick" else 10, capture=True)


def run(shard, rec, tier, seed):
    for ti in shard["trees"]:
        spec, feats = campaign.make_spec(seed, ti)
        if campaign.certified(spec):
            rec.inconclusive.append("SpecGen tree %d fails its grammar certificate" % ti)
            continue
        with campaign.Tree(spec) as t:
            if t.error is not None:
                rec.count("base-spec-rejected-by-generator")
                continue
            rec.count("trees-staged")
            if t.generator_reused:
                rec.count("trees-generated-after-a-failed-run-on-a-broken-revision" if t.prior_failed else "trees-generated-by-an-instance-that-read-an-earlier-revision")
            log = frames.FrameLog()
            n = frames.install(log)
            rec.count("classes-wrapped", n)
            gen_root = os.path.join(t.staged.pkg_parent, "eolib", "protocol", "_generated")
            with LineFaults(gen_root, InjectedFault) as lf:
                run_tree(campaign.CaptureRec(rec, ti), tier, seed, ti, spec, t, log, lf)
            rec.count("frames-recorded", log.records)
            rec.count("frames-that-raised", log.raised)
            rec.count("max-nesting-depth-seen", 0)
            rec.seen("max-depth", str(log.max_depth))
            rec.count("distinct-generated-lines-hit", len(lf.lines_seen))


def indices(n, cap, rng):
    if n > 3000:
        cap = 4  # a run costs O(n): huge values get the first, the last and a few random fault points
    if n <= cap:
        return list(range(1, n + 1))
    s = set([1, 2, n, n - 1]) | set(rng.sample(range(1, n + 1), cap - 4))
    return sorted(s)


def flush_leaks(rec, log, t, ti, name, what, case):
    if log.leaks:
        kind, qual, m0, m1, outcome = log.leaks[0]
        case = dict(case)
        case["xml"] = t.files
        case["frame"] = {"call": kind, "class": qual, "entry_mode": m0, "exit_mode": m1, "outcome": outcome}
        mech = "%s-mode-leak-on-%s" % ("writer" if kind == "serialize" else "reader", "raise" if outcome.startswith("raise") else "return")
        rec.violation(mech, "tree %d %s (%s): %s.%s entered with mode %r and left with %r (%s)" % (ti, name, what, qual, kind, m0, m1, outcome), case)
        del log.leaks[:]


def run_tree(rec, tier, seed, ti, spec, t, log, lf):
    rng = random.Random("C15-%d-%d" % (seed, ti))
    it, br = t.interp, t.bridge
    for name, decl, path in spec.classes():
        vg = ValueGen(it, rng, "nd")
        C = br.real_class((name,))
        for j in range(VALUES[tier]):
            obj = vg.message(name)
            mode = bool((j + ti) % 2)
            case = {"tree": ti, "class": name, "value": obj.to_json(), "entry_mode": mode}
            # ---------- serialize: clean run
            try:
                real = br.build(obj)
            except Exception:
                rec.count("constructor-raised")
                continue

            last = {}

            def ser(fail_at=None, target_obj=real):
                w = t.EoWriter()
                w.string_sanitization_mode = mode
                tw = TraceWriter(w, None, fail_at=fail_at)
                last["tw"], last["ok"] = tw, False
                try:
                    C.serialize(tw, target_obj)
                    last["ok"] = True
                except (InjectedFault, ValueError, t.SerializationError):
                    pass
                except Exception as e:
                    rec.count("other-exception-during-serialize:" + type(e).__name__)
                return tw.calls, bytes(w.to_bytearray())

            n_ops, data = lf.run(lambda: ser())
            if last["ok"]:
                # the mode in force at every write must be the one the XML prescribes there
                mw = RefWriter()
                mw.sanitize = mode
                mw.modes = []
                try:
                    it.serialize(obj, mw)
                    want_modes = mw.modes
                except (Invalid, Unsupported):
                    want_modes = None
                got_modes = last["tw"].modes
                if want_modes is not None and [m[0] for m in want_modes] == [m[0] for m in got_modes]:
                    rec.count("writer-mode-traces-compared")
                    bad = next((i for i, (a, b) in enumerate(zip(want_modes, got_modes)) if a[1] != b[1]), None)
                    if bad is not None:
                        rec.violation("writer-mode-inside-call-differs", "tree %d %s: at write #%d (%s) the writer's sanitisation mode is %r, the XML prescribes %r (entry mode %r)" % (
                            ti, name, bad, got_modes[bad][0], got_modes[bad][1], want_modes[bad][1], mode), dict(case, xml=t.files, op_index=bad))
                elif want_modes is not None and bytes(mw.data) != data:
                    # the writes cannot be lined up with the prescribed ones (other calls, other writers in
                    # between): then the bytes produced under this entry mode decide
                    rec.count("writer-byte-fallback-compared")
                    rec.violation("writer-mode-inside-call-differs", "tree %d %s: entered with sanitisation %r the serializer wrote %s, the XML prescribes %s (the write calls do not line up with the prescribed ones)" % (
                        ti, name, mode, data.hex()[:160], bytes(mw.data).hex()[:160]), dict(case, xml=t.files))
            n_lines = lf.count
            rec.case((ti, name, repr(obj), mode, "ser-clean"), nontrivial=log.max_depth > 1)
            flush_leaks(rec, log, t, ti, name, "clean serialize", case)
            # the nested classes (case data, struct fields) are public classes too: each nested instance is also
            # serialized and deserialized on its own, entered with either mode
            nested = [(inst, mo.cls, where, mo) for mo, inst, where in br.pairs(obj, real) if (len(mo.cls) > 1 or where)]
            for inst, cls, where, mo in nested[:6]:
                NC = type(inst)
                for m2 in (False, True):
                    w2 = t.EoWriter()
                    w2.string_sanitization_mode = m2
                    raised2 = None
                    try:
                        NC.serialize(w2, inst)
                    except (ValueError, t.SerializationError) as e:
                        raised2 = e
                    except Exception as e:
                        raised2 = e
                        rec.count("other-exception-during-serialize:" + type(e).__name__)
                    rec.count("nested-classes-entered-directly")
                    flush_leaks(rec, log, t, ti, name, "nested %s%s serialized directly (entry mode %r)" % (".".join(cls), where, m2), case)
                    d2 = bytes(w2.to_bytearray())
                    # what the nested class writes when entered on its own is prescribed too: the section structure of
                    # its own declaration decides which of its strings are sanitised, whatever the entry mode
                    mw2 = RefWriter()
                    mw2.sanitize = m2
                    try:
                        it.serialize(mo, mw2)
                        want2 = bytes(mw2.data)
                    except Exception:
                        want2 = None
                    if want2 is not None and raised2 is None:
                        rec.count("nested-direct-serializations-compared")
                        if d2 != want2:
                            rec.violation("writer-mode-inside-call-differs", "tree %d %s: nested %s%s serialized on its own with entry mode %r wrote %s, the XML prescribes %s" % (
                                ti, name, ".".join(cls), where, m2, d2.hex()[:120], want2.hex()[:120]), dict(case, xml=t.files, nested=".".join(cls)))
                    r2 = t.EoReader(d2)
                    r2.chunked_reading_mode = m2
                    m2r = RefReader(d2)
                    m2r.chunked = m2
                    back2 = None
                    try:
                        back2 = NC.deserialize(LockstepReader(r2, m2r, fuel=6 * len(d2) + 5000))
                    except (Exception, FuelExhausted, Divergence, InjectedFault):
                        pass
                    if back2 is not None and raised2 is None:
                        # ... and so is what it reads back from those bytes under the same entry mode
                        m3 = RefReader(d2)
                        m3.chunked = m2
                        try:
                            want3 = it.deserialize(tuple(cls), m3)
                        except Exception:
                            want3 = None
                        if want3 is not None:
                            rec.count("nested-direct-deserializations-compared")
                            diffs = br.compare(want3, back2)
                            if diffs:
                                rec.violation("reader-mode-inside-call-differs", "tree %d %s: nested %s%s deserialized on its own with entry mode %r: %s" % (
                                    ti, name, ".".join(cls), where, m2, "; ".join(diffs[:3])), dict(case, xml=t.files, nested=".".join(cls), bytes=d2))
                    flush_leaks(rec, log, t, ti, name, "nested %s%s deserialized directly (entry mode %r)" % (".".join(cls), where, m2), case)
            for k in indices(n_ops, CAP[tier], rng):
                ser(fail_at=k)
                rec.count("fault-runs")
                rec.count("writer-op-faults")
                rec.case((ti, name, repr(obj), mode, "ser-op", k))
                flush_leaks(rec, log, t, ti, name, "writer fault at operation %d of %d" % (k, n_ops), dict(case, fault=("writer-op", k)))
            for k in indices(n_lines, CAP[tier], rng):
                lf.run(lambda: ser(), target=k)
                rec.count("fault-runs")
                rec.count("line-failpoints")
                rec.case((ti, name, repr(obj), mode, "ser-line", k))
                flush_leaks(rec, log, t, ti, name, "failpoint at line event %d of %d %r" % (k, n_lines, lf.fired_at), dict(case, fault=("line", k, lf.fired_at)))
            # ---------- invalid objects: validation error part-way
            try:
                ss = invalidate.sites(it, obj)
            except Exception:
                ss = []
            rng.shuffle(ss)
            for site in ss[:4]:
                try:
                    mut = invalidate.apply(it, obj, site, vg)
                    bad = br.build(mut) if mut is not None else None
                except Exception:
                    bad = None
                if bad is None:
                    continue
                ser(target_obj=bad)
                rec.count("fault-runs")
                rec.count("validation-error-runs")
                rec.case((ti, name, repr(mut), mode, "ser-invalid", site[1]))
                flush_leaks(rec, log, t, ti, name, "invalid object (%s)" % site[1], dict(case, fault=("invalid", site[1]), value=mut.to_json()))
            # ---------- deserialize: clean + faults, on the valid bytes and on a hostile variant
            variants = [data]
            if data and len(data) <= 5000:
                b = bytearray(data)
                b[rng.randrange(len(b))] = rng.choice([0xFF, 0xFE, 0x00])
                variants.append(bytes(b))
                variants.append(data[: rng.randrange(len(data))])
            for dv, d in enumerate(variants):

                dlast = {}

                def de(fail_at=None, d=d):
                    r = t.EoReader(d)
                    r.chunked_reading_mode = mode
                    m = RefReader(d)
                    m.chunked = mode
                    ls = LockstepReader(r, m, fuel=min(50 * len(d) + 3000, 6 * len(d) + 200000), fail_at=fail_at)
                    dlast["ls"], dlast["ok"] = ls, False
                    try:
                        C.deserialize(ls)
                        dlast["ok"] = True
                    except (InjectedFault, ValueError, FuelExhausted):
                        pass
                    except Divergence:
                        rec.count("reader-divergence-seen")
                    except Exception as e:
                        rec.count("other-exception-during-deserialize:" + type(e).__name__)
                    return ls.counter[0]

                dcase = {"tree": ti, "class": name, "bytes": d, "entry_mode": mode}
                n_ops = lf.run(lambda: de())
                n_lines = lf.count
                if dlast["ok"]:
                    mr = RefReader(d)
                    mr.chunked = mode
                    mr.modes = []
                    try:
                        it.deserialize((name,), mr, [5000])
                        want_modes = mr.modes
                    except Exception:
                        want_modes = None
                    got_modes = dlast["ls"].modes
                    if want_modes is not None and len(want_modes) == len(got_modes):
                        rec.count("reader-mode-traces-compared")
                        bad = next((i for i, (a, b) in enumerate(zip(want_modes, got_modes)) if a != b), None)
                        if bad is not None:
                            rec.violation("reader-mode-inside-call-differs", "tree %d %s: at read #%d the reader's chunked mode is %r, the XML prescribes %r (entry mode %r, bytes %s)" % (
                                ti, name, bad, got_modes[bad], want_modes[bad], mode, d.hex()), dict(dcase, xml=t.files, op_index=bad))
                rec.case((ti, name, d, mode, "de-clean"), nontrivial=log.max_depth > 1)
                flush_leaks(rec, log, t, ti, name, "clean deserialize", dcase)
                for k in indices(n_ops, CAP[tier] if dv == 0 else 8, rng):
                    de(fail_at=k)
                    rec.count("fault-runs")
                    rec.count("reader-op-faults")
                    rec.case((ti, name, d, mode, "de-op", k))
                    flush_leaks(rec, log, t, ti, name, "reader fault at operation %d of %d" % (k, n_ops), dict(dcase, fault=("reader-op", k)))
                for k in indices(n_lines, CAP[tier] if dv == 0 else 8, rng):
                    lf.run(lambda: de(), target=k)
                    rec.count("fault-runs")
                    rec.count("line-failpoints")
                    rec.case((ti, name, d, mode, "de-line", k))
                    flush_leaks(rec, log, t, ti, name, "failpoint at line event %d of %d %r" % (k, n_lines, lf.fired_at), dict(dcase, fault=("line", k, lf.fired_at)))
            if rec.evals % 50 < 3 and len(rec.samples) < 6:
                rec.sample({"tree": ti, "class": name, "entry_mode": mode, "writer_ops_clean": len(data), "value": obj.to_json()})
