"""C04 - EoWriter output read back by EoReader returns the values written.

The write history is replayed as a read script: each add_X is paired with the matching get_X in the
same order on a fresh real EoReader over the real writer's output.  Oracle: integers come back equal;
strings come back as their windows-1252 image (characters outside cp1252 -> '?', y-diaeresis -> 'y'
when sanitising); the output is consumed exactly (remaining == 0, position == len)."""
import random

from vf import stage
from vf.gen import values as V
from vf.ref import cp1252

ID = "C04"
LEVEL = "exploration"
RULE = ("cases are write histories (add_byte/bytes/char/short/three/int, fixed, padded, encoded, padded-encoded strings, "
        "optionally one trailing unsized string) with in-range integers and arbitrary Unicode strings minus the format's own "
        "exclusions (0xFF inside padded strings, '~' inside encoded strings), in both sanitisation modes (toggled at random "
        "points), each paired with the matching read script; seeded-random; non-trivial = >= 2 writes including a string or a "
        "multi-byte integer; distinct = distinct histories")
ASSUMPTIONS = ["expected string = cp1252 image table (vf/ref/cp1252.py) decoded back; a string's byte length equals its character count"]
FLOORS = {"reads-compared": 1000, "strings-compared": 100}



def shards(tier, seed):
    from vf import engine

    return engine.with_interpreter_options(_plain_shards(tier, seed))


def _plain_shards(tier, seed):
    if tier == "quick":
        return [{"n": 2500, "maxops": 12, "part": p} for p in range(16)] + [{"sweep": (lo, lo + 275), "part": 100 + lo} for lo in range(0, 2200, 275)] + [{"threads": 3, "part": 999}]
    return [{"n": 15625, "maxops": 40, "part": p} for p in range(64)] + [{"sweep": (lo, lo + 1100), "part": 100 + lo} for lo in range(0, 13200, 1100)] + [{"sweep": (c - 3, c + 4), "part": 100 + c} for c in (16384, 32768, 65536)] + [{"threads": 10, "part": 999}]


def gen_history(rng, maxops):
    ops = []
    sanitize = False
    n = rng.randrange(1, maxops + 1)
    for i in range(n):
        r = rng.random()
        if r < 0.1:
            sanitize = rng.random() < 0.5
            ops.append(("mode", sanitize))
        elif r < 0.4:
            kind = rng.choice(["byte", "char", "short", "three", "int"])
            ops.append(("add_" + kind, V.intlike(rng, V.rand_int(rng, kind))))
        elif r < 0.47:
            ops.append(("add_bytes", bytes(rng.randrange(256) for _ in range(rng.randrange(0, 7)))))
        else:
            encoded = rng.random() < 0.5
            padded = rng.random() < 0.5
            classes = ["ascii", "high", "outside"]
            if not encoded:
                classes.append("tilde")
            if not padded or sanitize:
                classes.append("ydia")
            s = V.rand_string(rng, 10 if rng.random() < 0.97 else rng.choice([64, 255, 256, 300, 2000]), tuple(classes))
            L = len(s) + (rng.randrange(0, 5) if padded else 0)
            if padded and rng.random() < 0.04:
                L = len(s) + rng.choice([252, 253, 254, 255, 256, 300, 1000, 64008, 64009, 64010, 70000])
            ops.append(("add_fixed_encoded_string" if encoded else "add_fixed_string", s, L, padded))
    if rng.random() < 0.5:
        encoded = rng.random() < 0.5
        classes = ("ascii", "high", "outside", "ydia") + (() if encoded else ("tilde",))
        ops.append(("add_encoded_string" if encoded else "add_string", V.rand_string(rng, 14, classes)))
    return ops


def expected_text(s, sanitize):
    img = cp1252.image(s)
    if sanitize:
        img = img.replace(b"\xff", b"y")
    return cp1252.text(img)


def run(shard, rec, tier, seed):
    ns = stage.shim()
    rng = random.Random("C04-%d-%d" % (seed, shard["part"]))
    if "threads" in shard:
        # every thread has its own writer and reader; what they write and read back must not depend on the others
        from vf.mon import threads as thr

        class _Rec:
            def __init__(self):
                self.found = []

            def violation(self, mech, msg, case):
                self.found.append((mech, msg + " (while other threads used their own writers and readers)", case))

            def count(self, *a, **k):
                pass

        n = [0]

        def work(tid, rnd):
            r = random.Random("C04-thr-%d-%d-%d" % (seed, rnd, tid))
            local = _Rec()
            for _ in range(150):
                hist = [("add_fixed_encoded_string", "x" * (300 + tid), 300 + tid, False), ("add_fixed_string", "\xffz" * (200 + tid), 400 + 2 * tid, False)] + gen_history(r, 10)
                run_history(ns, local, hist)
                n[0] += 1
                if local.found:
                    break
            return local.found
        found, errors = thr.hammer(work, 4, shard["threads"])
        for e in errors:
            rec.violation("read-raises", "a worker thread died: " + e, {"threads": 4})
        for mech, msg, case in found[:3]:
            rec.violation(mech, msg, case)
        rec.count("histories-from-concurrent-threads", n[0])
        rec.case(("threads", shard["threads"]), n=n[0])
        return
    if "sweep" in shard:
        # string-length sweep: every length lo..hi through each string writer / reader pair (exact and padded
        # by 0 / 1 / 7), between two integers, in both modes - block sizes and thresholds meet every length
        lo, hi = shard["sweep"]
        for L in range(lo, hi):
            san = L % 2 == 0
            pool = "abcXYZ 09\xe9\u20ac" + ("\xff" if san else "")
            s = "".join(pool[(i * 7 + L) % len(pool)] for i in range(L))
            enc = "".join(c for c in s)  # '~' never occurs in the pool
            pad = (0, 1, 7)[L % 3]
            hist = [("mode", san), ("add_short", 1234), ("add_fixed_string", s, L, False), ("add_fixed_encoded_string", enc, L, False),
                    ("add_char", 7), ("add_fixed_string", s.replace("\xff", "y"), L + pad, True), ("add_fixed_encoded_string", enc.replace("\xff", "y"), L + pad, True),
                    ("add_three", 70000), ("add_encoded_string" if L % 4 < 2 else "add_string", s)]
            run_history(ns, rec, hist)
            rec.case(("sweep", L))
            rec.count("string-lengths-swept")
        rec.seen("string-length-ranges", "%d..%d" % (lo, hi - 1))
        return
    for _ in range(shard["n"]):
        hist = gen_history(rng, shard["maxops"])
        run_history(ns, rec, hist)
        rec.case(hist, nontrivial=sum(1 for o in hist if o[0] != "mode") >= 2)
    rec.sample({"history": hist})


def run_history(ns, rec, hist):
    w = ns.EoWriter()
    expect = []
    sanitize = False
    early = None
    try:
        for k, op in enumerate(hist):
            if k == len(hist) // 2 and k > 0 and len(hist) % 2 == 0:
                # half-way through, the output so far is taken and a reader is opened on it (a partial message is
                # inspected, logged ...) while the writer goes on: both must be left alone by what follows
                snap = w.to_bytearray()
                early = (snap, bytes(snap), ns.EoReader(snap), len(expect))
            if op[0] == "mode":
                w.string_sanitization_mode = sanitize = op[1]
                continue
            if op[0] == "add_bytes":
                # a caller-owned scratch buffer, reused (overwritten and grown) right after the call
                scratch = bytearray(op[1])
                w.add_bytes(scratch)
                scratch[:] = b"c" * len(scratch)
                scratch.extend(b"\x63\x63")
            else:
                getattr(w, op[0])(*op[1:])
            name = op[0]
            if name in ("add_byte", "add_char", "add_short", "add_three", "add_int"):
                expect.append((name.replace("add_", "get_"), (), int(op[1])))  # whatever int type was written, a plain int comes back
            elif name == "add_bytes":
                expect.append(("get_bytes", (len(op[1]),), bytearray(op[1])))
            elif name in ("add_string", "add_encoded_string"):
                expect.append((name.replace("add_", "get_"), (), expected_text(op[1], sanitize)))
            else:
                expect.append((name.replace("add_", "get_"), (op[2], op[3]), expected_text(op[1], sanitize)))
    except Exception as ex:
        rec.violation("write-raises", "valid write history raised %r" % ex, {"history": hist})
        return
    # the output is taken twice; the caller encrypts the first copy in place (what the packet pipeline does with it)
    first = w.to_bytearray()
    for i in range(len(first)):
        first[i] ^= 0x5A
    first.extend(b"\x00\x01")
    rec.count("outputs-taken-twice")
    out = bytes(w.to_bytearray())
    if early is not None:
        snap, was, r0, n0 = early
        rec.count("early-outputs-rechecked")
        if bytes(snap) != was or out[:len(was)] != was:
            rec.violation("readback-bytes", "the output taken after %d writes was %s; after the later writes the same object holds %s and the final output starts with %s" % (
                n0, was.hex()[:80], bytes(snap).hex()[:80], out[:len(was)].hex()[:80]), {"history": hist, "bytes": out})
            return
        try:
            for name, args, want in expect[:n0]:
                got = getattr(r0, name)(*args)
                if got != want:
                    rec.violation("readback-bytes", "the reader opened on the output taken after %d writes reads %s%r as %r, written value reads as %r" % (n0, name, args, got, want), {"history": hist, "bytes": out})
                    return
        except Exception as ex:
            rec.violation("read-raises", "the reader opened on the output taken after %d writes raised %r" % (n0, ex), {"history": hist, "bytes": out})
            return
    r = ns.EoReader(out)
    # what generated deserializers do around every call: the (plain) reading mode is assigned explicitly, or switched on
    # and off again, before the script starts - the reader is still a plain-mode reader at position 0
    if len(out) % 3 == 1:
        r.chunked_reading_mode = False
        rec.count("readers-with-mode-assigned-off")
    elif len(out) % 3 == 2:
        r.chunked_reading_mode = True
        r.chunked_reading_mode = False
        rec.count("readers-with-mode-switched-on-and-off")
    kept = []
    for i, (name, args, want) in enumerate(expect):
        try:
            got = getattr(r, name)(*args)
        except Exception as ex:
            rec.violation("read-raises", "%s%r raised %r" % (name, args, ex), {"history": hist, "bytes": out})
            return
        rec.count("reads-compared")
        if isinstance(want, str):
            rec.count("strings-compared")
        if got != want or type(got) is not type(want):
            kind = "string" if isinstance(want, str) else "bytes" if isinstance(want, bytearray) else "integer"
            rec.violation("readback-" + kind, "read #%d %s%r returned %r, written value reads as %r" % (i, name, args, got, want), {"history": hist, "bytes": out, "read_index": i})
            return
        kept.append((i, name, got, want))
    # the values are usually collected first and looked at afterwards: what an earlier read returned must still be
    # what it was once the later reads are done
    for i, name, got, want in kept:
        if got != want:
            rec.violation("readback-bytes", "read #%d %s returned %r at the time; after the later reads the same object shows %r" % (i, name, want, got), {"history": hist, "bytes": out, "read_index": i})
            return
    if r.remaining != 0 or r.position != len(out):
        rec.violation("not-consumed-exactly", "after the read script remaining=%d position=%d len=%d" % (r.remaining, r.position, len(out)), {"history": hist, "bytes": out})
