"""C08 - EO string encoding is length-preserving, self-inverse and break-safe.

Monitors on the real encode_string / decode_string (in-place on bytearray):
  table          per (byte value x position parity x length parity): image equals the reference
                 2x256 substitution table, after undoing the reversal
  self-inverse   decode(encode(x))[i] == x[i] and encode(decode(x))[i] == x[i] wherever x[i] != 0x7E
  length/order   length preserved; position i maps to position n-1-i
  range          bytes outside 0x22..0x7E unchanged; bytes inside map into 0x21..0x7D
  break-safe     number and positions (mirrored) of 0x00 / 0xFF bytes preserved
  in-place       returns None and mutates the argument
"""
import itertools
import random

from vf import stage
from vf.ref import strings as ref

ID = "C08"
LEVEL = "exploration"
RULE = ("cases are byte strings; the (byte value x index parity x length parity) table is enumerated "
        "completely (2x2x256 cells, each cell also at 3 other lengths), all strings up to the bound over a "
        "12-symbol boundary alphabet are enumerated completely, longer strings are seeded-random; "
        "non-trivial = string is non-empty; distinct = distinct byte strings")
ASSUMPTIONS = [
    "reference table vf/ref/strings.py; cross-checked at start-up against the six literal vectors of the repository's tests",
    "0x7E is the one value the format cannot carry (excluded from the self-inverse clause only)",
]
FLOORS = {"self-inverse": 1, "table-cells": 1024}

ALPHA = [0x00, 0x21, 0x22, 0x23, 0x4F, 0x50, 0x51, 0x7D, 0x7E, 0x7F, 0xFE, 0xFF]
VECTORS = [("Hello, World!", "!;a-^H s^3a:)"),
           ("We're ¼ of the way there, so ¾ is remaining.", "C8_6_6l2h- ,d ¾ ^, sh-h7Y T>V h7Y g0 ¼ :[xhH"),
           ("64² = 4096", ";fAk b ²=i"), ("© FÒÖ BÃR BÅZ 2014", "=nAm EÅ] MÃ] ÖÒY ©"),
           ('Öxxö Xööx "Lëïth Säë" - "Ÿ"', "OŸO D OëäL 7YïëSO UööG öU'Ö"),
           ("Padded with 0xFFÿÿÿÿÿÿÿÿ", "ÿÿÿÿÿÿÿÿ+YUo 7Y6V i:i;lO")]



def shards(tier, seed):
    out = _shards(tier, seed)
    # what runs under -O also runs in an interpreter that turns every warning into an error (-W error)
    return out + [dict(s, _pyflags=["-W", "error"]) for s in out if s.get("_pyflags") == ["-O"]]


def _shards(tier, seed):
    out = [{"kind": "table"}, {"kind": "threads", "rounds": 3 if tier == "quick" else 12}] + [{"kind": "runs", "special": sp} for sp in (0xFF, 0x00, 0x7E, 0x21, 0x22, 0x50)]
    if tier == "quick":
        out += [{"kind": "alpha", "maxlen": 3, "first": None}]
        out += [{"kind": "alpha", "maxlen": 4, "first": a} for a in (0x22, 0x7E)]
        out += [{"kind": "random", "n": 12500, "maxlen": 120, "part": p} for p in range(4)]
        out += [{"kind": "table", "_pyflags": ["-O"]}, {"kind": "random", "n": 4000, "maxlen": 120, "part": 77, "_pyflags": ["-OO"]}]
    else:
        out += [{"kind": "alpha", "maxlen": 3, "first": None}]
        out += [{"kind": "alpha5", "first": a, "second": b} for a in ALPHA for b in ALPHA[::2]]
        out += [{"kind": "alpha", "maxlen": 4, "first": a} for a in ALPHA]
        out += [{"kind": "random", "n": 62500, "maxlen": 300, "part": p} for p in range(32)]
        out += [{"kind": "table", "_pyflags": ["-O"]}, {"kind": "random", "n": 40000, "maxlen": 300, "part": 77, "_pyflags": ["-OO"]}]
    return out


class Mon:
    def __init__(self, ns, rec):
        self.enc = ns.strings.encode_string
        self.dec = ns.strings.decode_string
        self.rec = rec

    def apply(self, f, x):
        b = bytearray(x)
        # every third call the caller keeps a view of its buffer alive (a slice of a larger packet buffer is
        # handed around like that): "in place" means the bytearray is never resized, not even temporarily
        self.n = getattr(self, "n", 0) + 1
        if self.n % 3 == 0:
            with memoryview(b):
                r = f(b)
            self.rec.count("calls-with-a-live-view-of-the-buffer")
        else:
            r = f(b)
        if r is not None:
            self.rec.violation("in-place", "%s returned %r instead of None" % (f.__name__, r), {"input": x})
        return bytes(b)

    def check(self, x):
        rec = self.rec
        x = bytes(x)
        n = len(x)
        for name, f, g, reff in (("encode", self.enc, self.dec, ref.encode), ("decode", self.dec, self.enc, ref.decode)):
            try:
                y = self.apply(f, x)
                z = self.apply(g, y)
            except Exception as ex:
                rec.violation("raises", "%s_string raised %r on %s" % (name, ex, x.hex()), {"input": x})
                continue
            if len(y) != n:
                rec.violation("length", "%s changed length %d -> %d" % (name, n, len(y)), {"input": x, "out": y})
                continue
            if y != reff(x):
                rec.violation("table", "%s_string(%s) = %s, reference %s" % (name, x.hex(), y.hex(), reff(x).hex()), {"input": x, "out": y})
            for i in range(n):
                c, d = x[i], y[n - 1 - i]
                if not (0x22 <= c <= 0x7E):
                    if d != c:
                        rec.violation("range", "%s modified byte 0x%02X (outside 0x22..0x7E) at %d into 0x%02X (or broke the reversal)" % (name, c, i, d), {"input": x, "out": y})
                        break
                elif not (0x21 <= d <= 0x7D):
                    rec.violation("range", "%s mapped 0x%02X to 0x%02X outside 0x21..0x7D" % (name, c, d), {"input": x, "out": y})
                    break
            for special in (0x00, 0xFF):
                if [n - 1 - i for i in range(n) if x[i] == special][::-1] != [j for j in range(n) if y[j] == special]:
                    rec.violation("break-safe", "%s created or destroyed a 0x%02X byte" % (name, special), {"input": x, "out": y})
            if len(z) != n or any(z[i] != x[i] for i in range(n) if x[i] != 0x7E):
                rec.violation("self-inverse", "%s then inverse does not restore %s (got %s)" % (name, x.hex(), z.hex()), {"input": x, "out": z})


def selfcheck(rec):
    for dec, enc in VECTORS:
        d, e = dec.encode("cp1252"), enc.encode("cp1252")
        if ref.encode(d) != e or ref.decode(e) != d:
            rec.inconclusive.append("reference string table disagrees with pinned vector %r" % dec)
            return False
    return True


def run(shard, rec, tier, seed):
    ns = stage.shim()
    if not selfcheck(rec):
        return
    mon = Mon(ns, rec)
    kind = shard["kind"]
    cnt = 0
    if kind == "table":
        # every byte value at an even and an odd index of strings of even and odd length
        cells = set()
        for c in range(256):
            for n in (1, 2, 3, 4, 5, 6, 9, 16):
                for i in range(n):
                    x = bytearray([0x41] * n)
                    x[i] = c
                    mon.check(x)
                    cells.add((c, i % 2, n % 2))
                    cnt += 1
                    rec.case(bytes(x))
        # the buffer passed by name (the parameter is called `bytes`)
        for x in (b"", b"a", b"Hello, World!", b"\x22\x7e\xff\x00\x50", bytes(range(0x20, 0x80))):
            for f, reff in ((mon.enc, ref.encode), (mon.dec, ref.decode)):
                b = bytearray(x)
                try:
                    f(bytes=b)
                except Exception as ex:
                    rec.violation("raises", "%s(bytes=...) raised %r" % (f.__name__, ex), {"input": x})
                    continue
                if bytes(b) != reff(x):
                    rec.violation("table", "%s(bytes=%s) gives %s, reference %s" % (f.__name__, x.hex(), bytes(b).hex(), reff(x).hex()), {"input": x})
        rec.count("keyword-calls", 10)
        rng = random.Random("C08-huge")
        for L in (65535, 65536, 65537, 70001, 131073):
            x = bytes(rng.choice([rng.randrange(256), 0x41, 0x7E, 0xFF, 0x00]) for _ in range(L))
            mon.check(x)
            rec.case(("huge", L))
            cnt += 1
        rec.seen("huge-lengths", "65535 65536 65537 70001 131073")
        rec.count("table-cells", len(cells))
        rec.info["exhaustive_table"] = "all %d (byte, index parity, length parity) cells" % len(cells)
        rec.sample({"table_case": "byte 0x22 at index 1 of 4", "encoded": mon.apply(mon.enc, bytes([0x41, 0x22, 0x41, 0x41]))})
    elif kind == "alpha":
        for L in range(0, shard["maxlen"] + 1):
            if shard["first"] is not None and L != shard["maxlen"]:
                continue
            for t in itertools.product(ALPHA, repeat=L):
                if shard["first"] is not None and (not t or t[0] != shard["first"]):
                    continue
                mon.check(bytes(t))
                cnt += 1
        rec.case(None, n=cnt)
        rec.seen("alphabet_exhaustive", "len<=%d first=%s" % (shard["maxlen"], shard["first"]))
    elif kind == "threads":
        # the functions are pure transformations of the caller's own buffer: several threads, each with private
        # buffers (odd and even lengths, long enough for a thread switch inside a call), all results compared
        # with the reference.  The interpreter's switch interval is lowered for the duration.
        import sys
        import threading

        old_iv = sys.getswitchinterval()
        sys.setswitchinterval(1e-6)
        bad = []
        calls = [0]
        try:
            for rnd in range(shard["rounds"]):
                def work(tid, rnd=rnd):
                    r = random.Random("C08-thr-%d-%d" % (rnd, tid))
                    for k in range(60):
                        L = (2000 if (tid + k) % 2 else 2001) + r.randrange(0, 3) * 2
                        x = bytes(r.randrange(0x20, 0x80) if r.random() < 0.8 else r.randrange(256) for _ in range(L))
                        for f, reff in ((mon.enc, ref.encode), (mon.dec, ref.decode)):
                            b = bytearray(x)
                            f(b)
                            calls[0] += 1
                            if bytes(b) != reff(x) and len(bad) < 3:
                                bad.append((f.__name__, tid, L))
                ts = [threading.Thread(target=work, args=(i,)) for i in range(4)]
                for th in ts:
                    th.start()
                for th in ts:
                    th.join()
        finally:
            sys.setswitchinterval(old_iv)
        # once more with line-level yield injection inside the codec (fewer, shorter buffers)
        from vf.mon import threads as thr

        def work2(tid, rnd):
            r = random.Random("C08-thr-inj-%d" % tid)
            for k in range(12):
                L = (300 if (tid + k) % 2 else 301) + 2 * r.randrange(0, 3)
                x = bytes(r.randrange(0x20, 0x80) for _ in range(L))
                for f, reff in ((mon.enc, ref.encode), (mon.dec, ref.decode)):
                    b = bytearray(x)
                    f(b)
                    calls[0] += 1
                    if bytes(b) != reff(x):
                        bad.append((f.__name__, tid, L))
                        return []
            return []
        import os

        _f, errs = thr.hammer(work2, 4, 1, inject=os.path.join(stage.REPO, "src", "eolib", "data"), first_round=100)
        for e in errs[:2]:
            rec.violation("raises", "a worker thread died: " + e, {"threads": 4})
        rec.count("line-events-with-yield-injection", getattr(thr.hammer, "lines_with_injection", 0))
        rec.count("calls-from-concurrent-threads", calls[0])
        rec.case(("threads", shard["rounds"]), n=calls[0])
        cnt = calls[0] // 2
        for name, tid, L in bad:
            rec.violation("table", "%s on a private %d-byte buffer gave a wrong result while other threads were encoding / decoding their own buffers (thread %d)" % (name, L, tid), {"threads": 4, "length": L})
    elif kind == "runs":
        # padded shapes: a run of one special byte (every length 0..70 and around 128 / 256 / 1024 / 4096) before,
        # after, around and inside payloads of length 0..9 - what a fixed-length padded field looks like
        sp = shard["special"]
        rng = random.Random("C08-runs-%d" % sp)
        payloads = [b"", b"A", b"Hi", b"abc", b"\x22\x7e\x50\x51", b"Hello", b"\x21\x7f\x80\xfe\x00z", bytes(rng.randrange(0x22, 0x7F) for _ in range(7)), b"12345678", bytes(rng.randrange(256) for _ in range(9))]
        for r in list(range(0, 71)) + [127, 128, 129, 255, 256, 257, 1023, 1024, 1025, 4095, 4096, 4097]:
            run = bytes([sp]) * r
            for pl in payloads:
                for x in (run + pl, pl + run, run + pl + run, pl + run + pl, run + pl + run[:-1]):
                    mon.check(x)
                    cnt += 1
            rec.case(("runs", sp, r), n=5 * len(payloads))
        rec.seen("run-bytes", "0x%02x" % sp)
        rec.count("padded-shapes", cnt)
    elif kind == "alpha5":
        for t in itertools.product(ALPHA, repeat=3):
            mon.check(bytes((shard["first"], shard["second"]) + t))
            cnt += 1
        rec.case(None, n=cnt)
        rec.seen("alphabet_exhaustive", "len=5 prefix=%02x%02x" % (shard["first"], shard["second"]))
    elif kind == "random":
        rng = random.Random("C08-%d-%d" % (seed, shard["part"]))
        for _ in range(shard["n"]):
            L = rng.randrange(1, shard["maxlen"] + 1) if rng.random() < 0.8 else rng.randrange(1, 9)
            mode = rng.random()
            if mode < 0.4:
                x = bytes(rng.randrange(256) for _ in range(L))
            elif mode < 0.7:
                x = bytes(rng.randrange(0x20, 0x80) for _ in range(L))
            else:
                x = bytes(rng.choice(ALPHA + [rng.randrange(256)]) for _ in range(L))
            mon.check(x)
            rec.case(x)
            cnt += 1
        rec.sample({"random_input": x, "encoded": mon.apply(mon.enc, x)})
        # the same strings again in shuffled order, encode / decode interleaved (hidden per-string state)
        pool = [bytes(rng.choice(ALPHA + [rng.randrange(256)]) for _ in range(rng.randrange(1, 12))) for _ in range(300)]
        held = []
        hpool = [bytes(rng.choice(ALPHA + [rng.randrange(0x20, 0x80)]) for _ in range(rng.randrange(1, 12))) for _ in range(120)]
        for _ in range(shard["n"] // 4):
            mon.check(rng.choice(pool))
            cnt += 1
            rec.evals += 1
            x = rng.choice(hpool)  # strings that only ever live in long-lived buffers
            # buffers that stay alive and keep being transformed in place (what a reader / writer does):
            # whatever the functions remember about a buffer must not leak into a later call
            b = bytearray(x)
            mon.enc(b)
            if bytes(b) != ref.encode(x):
                rec.violation("table", "encode_string(%s) = %s on a repeated call, reference %s" % (x.hex(), bytes(b).hex(), ref.encode(x).hex()), {"input": x})
            held.append((b, x))
            if len(held) > 40:
                hb, hx = held.pop(rng.randrange(len(held)))
                mon.dec(hb)
                want = ref.decode(ref.encode(hx))
                if bytes(hb) != want:
                    rec.violation("self-inverse", "decode_string on a buffer encoded earlier gives %s, expected %s" % (bytes(hb).hex(), want.hex()), {"input": hx})
            rec.count("held-buffer-steps")
    rec.count("self-inverse", 2 * cnt)
    rec.count("table", 2 * cnt)
    rec.count("break-safe", 4 * cnt)
