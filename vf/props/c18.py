"""C18 - generation is deterministic and always yields an importable package.

Injected environment: the real generator runs in fresh interpreters under different PYTHONHASHSEEDs,
with os.walk replaced by a shuffling shim (directory enumeration order), on one instance twice, on a
new instance, after a failed run on the same instance, into a fresh directory, into its own previous
output, and through the repository's protocol.py (clean-then-generate) over the output of a different
spec.  Monitors: the generator succeeds on every certified-valid tree; all configurations produce the
same file set with identical bytes; the audit hook sees only writes below the output root and no file
written twice; a fresh interpreter imports the package and finds every declared enum / struct / packet
as a class defined in its module and exported from its documented subpackage and from the top level."""
import filecmp
import json
import os
import random
import shutil
import subprocess
import sys

from vf import campaign, stage
from vf.gen import spec as S
from vf.gen.names import snake
from vf.ref import grammar

ID = "C18"
LEVEL = "exploration"
RULE = ("cases are (valid spec tree, configuration): corpus + SpecGen trees (multi-file, cross-file references, awkward type names, "
        "empty bodies) x {baseline, hash seeds 1,2,3,random, two os.walk shuffles, same instance twice, new instance twice, "
        "after a failed run, into its own previous output, protocol.py generate over another spec's output}; every configuration "
        "runs in a fresh interpreter; non-trivial = tree has >= 2 files with types; distinct = distinct (tree, configuration)")
ASSUMPTIONS = [
    "validity of a tree = accepted by the independent grammar model (vf/ref/grammar.py) and non-degenerate (DESIGN 4.4)",
    "filesystem enumeration order is explored through the os.walk shim (orders actually yielded are logged), not by remounting",
]
FLOORS = {"configurations-compared": 40, "import-probes": 5}
SHARD_TIMEOUT = {"quick": 900, "thorough": 5400}
TREES = {"quick": 12, "thorough": 200}
ROOT = os.path.dirname(os.path.dirname(os.path.dirname(os.path.abspath(__file__))))
PY = sys.executable


def shards(tier, seed):
    return campaign.tree_shards(TREES[tier], 1 if tier == "quick" else 4)


def drive(repo, xml_root, out_root, mode="once", walk_seed=0, hashseed="0", locale=None):
    env = dict(os.environ, PYTHONHASHSEED=str(hashseed), PYTHONDONTWRITEBYTECODE="1", PYTHONPATH=ROOT)
    if locale:
        # a process whose preferred encoding is not UTF-8 (the C locale, with Python's own UTF-8 rescue switched off)
        env = {k: v for k, v in env.items() if not k.startswith("LC_") and k != "LANG"}
        env.update(LC_ALL=locale, LANG=locale, PYTHONUTF8="0", PYTHONCOERCECLOCALE="0")
    r = subprocess.run([PY, "-B", "-m", "vf.mon.gen_driver", repo, xml_root, out_root, mode, str(walk_seed)], capture_output=True, text=True, env=env, cwd=ROOT, timeout=300)
    try:
        return json.loads(r.stdout.strip().splitlines()[-1])
    except Exception:
        return {"ok": False, "error": "driver crashed: " + r.stderr[-500:], "writes": [], "walk_order": []}


def tree_bytes(root):
    out = {}
    for d, _dirs, files in os.walk(root):
        for f in files:
            p = os.path.join(d, f)
            out[os.path.relpath(p, root)] = open(p, "rb").read()
    return out


def declarations(spec):
    out = []
    for path, f in spec.files.items():
        pkg = "eolib.protocol._generated" + ("." + path.replace("/", ".") if path else "")
        for e in f.enums:
            out.append({"name": e.name, "path": path, "kind": "enum", "module": pkg + "." + snake(e.name),
                        "members": [["None_" if v[0] == "None" else v[0], v[1]] for v in e.values]})
        for s in f.structs:
            out.append({"name": s.name, "path": path, "kind": "struct", "module": pkg + "." + snake(s.name)})
        for p in f.packets:
            n = S.packet_name(p, path)
            out.append({"name": n, "path": path, "kind": "packet", "module": pkg + "." + snake(n)})
    return out


def run(shard, rec, tier, seed):
    for ti in shard["trees"]:
        spec, feats = campaign.make_spec(seed, ti, allow_empty=True, awkward_names=(ti % 3 == 1))
        if grammar.check(spec):
            rec.inconclusive.append("SpecGen tree %d fails its grammar certificate" % ti)
            continue
        other, _f = campaign.make_spec(seed, ti + 100000)
        run_tree(rec, tier, seed, ti, spec, other)


def run_tree(rec, tier, seed, ti, spec, other):
    rng = random.Random("C18-%d-%d" % (seed, ti))
    files = S.render(spec)
    work = stage.scratch("vf-c18-")
    try:
        xml_root = os.path.join(work, "xml")
        os.makedirs(xml_root)
        # on-disk creation order shuffled
        items = list(files.items())
        rng.shuffle(items)
        stage.write_tree(xml_root, dict(items))
        case = {"tree": ti, "xml": files}
        # the same types living in other directories (map <-> pub, net/client <-> net/server structs and enums
        # swapped): generated first in the same process by the "other-tree-first" configuration
        moved = spec.clone()
        for a, b in (("map", "pub"), ("net/client", "net/server")):
            fa, fb = moved.files[a], moved.files[b]
            fa.enums, fb.enums = fb.enums, fa.enums
            fa.structs, fb.structs = fb.structs, fa.structs
        bad_names = any(n.lower() in {"": {"net", "map", "pub"}, "net": {"client", "server"}, "pub": {"server"}}.get(p, ()) for n, (d, p) in moved.types().items())
        have_moved = not grammar.check(moved) and not bad_names
        if have_moved:
            stage.write_tree(xml_root + ".other", S.render(moved))
        # an earlier revision of the same files (other enum ordinals and wire types everywhere), read first by the same
        # generator instance in the "same-instance-earlier-revision" configuration
        stage.write_tree(xml_root + ".earlier", S.render(campaign.earlier_revision(spec)))
        base_out = os.path.join(work, "out-base")
        base = drive(stage.REPO, xml_root, base_out)
        rec.case((ti, "baseline"), nontrivial=sum(1 for f in spec.files.values() if f.enums or f.structs or f.packets) >= 2)
        if not base["ok"]:
            mech = "valid-spec-rejected"
            if "expected an indented block" in (base["error"] or ""):
                mech = "empty-body-generates-invalid-python"
            rec.violation(mech, "tree %d: the generator failed on a valid specification: %s" % (ti, base["error"]), case)
            return
        rec.count("trees-generated")
        check_audit(rec, base, base_out, ti, "baseline", case)
        ref = tree_bytes(base_out)
        rec.count("files-in-baseline", len(ref))
        configs = [("hashseed-1", dict(hashseed="1")), ("hashseed-2", dict(hashseed="2")), ("hashseed-3", dict(hashseed="3")),
                   ("hashseed-random", dict(hashseed="random")),
                   ("walk-shuffle-a", dict(walk_seed=11 + ti)), ("walk-shuffle-b", dict(walk_seed=977 + ti, hashseed="5")),
                   ("same-instance-twice", dict(mode="twice-same-instance")), ("new-instance-twice", dict(mode="twice-new-instance")),
                   ("after-failed-run", dict(mode="failed-then-good")), ("after-runs-that-failed-reading-the-tree", dict(mode="failed-index-then-good")),
                   ("relative-roots", dict(mode="relative-roots")), ("dot-root", dict(mode="dot-root")), ("unnormalised-roots", dict(mode="unnormalised-roots")),
                   ("symlinked-roots", dict(mode="symlinked-roots")),
                   ("twice-with-clean-between", dict(mode="twice-with-clean-between"))]
        configs.append(("same-instance-earlier-revision", dict(mode="same-instance-earlier-revision")))
        if have_moved:
            configs.append(("other-tree-first", dict(mode="other-tree-first")))
            configs.append(("same-instance-edited", dict(mode="same-instance-edited")))
        if ti < 0:
            # the hand-written tree has cross-directory enum references: try more enumeration orders
            configs += [("walk-shuffle-%d" % w, dict(walk_seed=w)) for w in (101, 202, 303, 404, 505, 606)]
        if tier == "thorough":
            configs += [("hashseed-%d" % h, dict(hashseed=str(h))) for h in (7, 11, 42, 1000)] + [("walk-shuffle-%d" % w, dict(walk_seed=w)) for w in (3, 5, 8, 13)]
        configs.append(("below-a-directory-named-eolib", {}))
        configs.append(("posix-locale", dict(locale="C")))
        for cname, kw in configs:
            out = os.path.join(work, "out-" + cname)
            if cname == "below-a-directory-named-eolib":
                # the layout of a checkout cloned into a directory called eolib: .../eolib/src/eolib/protocol/_generated
                out = os.path.join(work, "eolib", "src", "eolib", "protocol", "_generated")
            res = drive(stage.REPO, xml_root, out, **kw)
            rec.case((ti, cname))
            rec.count("configurations-compared")
            if kw.get("walk_seed"):
                rec.seen("walk-orders", "/".join(res.get("walk_order", []))[:100])
            compare(rec, ti, cname, res, out, ref, case)
            check_audit(rec, res, out, ti, cname, case)
            shutil.rmtree(out, ignore_errors=True)
            for suffix in (".first", ".blocked"):
                p = out + suffix
                if os.path.isdir(p):
                    shutil.rmtree(p, ignore_errors=True)
                elif os.path.exists(p):
                    os.remove(p)
        # the same documents in other XML encodings (declared ISO-8859-1, UTF-8 with a byte order mark, UTF-16):
        # the parser must be given the bytes, the encoding is the document's own business
        enc_root = os.path.join(work, "xml-encodings")
        k = 0
        for rel, text in files.items():
            d = os.path.join(enc_root, rel) if rel else enc_root
            os.makedirs(d, exist_ok=True)
            body = text.split("?>", 1)[1] if text.lstrip().startswith("<?xml") else text
            k += 1
            choice = k % 3
            if choice == 0:
                try:
                    raw = ("<?xml version='1.0' encoding='ISO-8859-1'?>" + body).encode("iso-8859-1")
                except UnicodeEncodeError:
                    choice = 2
            if choice == 1:
                raw = b"\xef\xbb\xbf" + ("<?xml version='1.0' encoding='UTF-8'?>" + body).encode("utf-8")
            elif choice == 2:
                raw = ("<?xml version='1.0' encoding='UTF-16'?>" + body).encode("utf-16")
            with open(os.path.join(d, "protocol.xml"), "wb") as fh:
                fh.write(raw)
        out = os.path.join(work, "out-encodings")
        res = drive(stage.REPO, enc_root, out)
        rec.count("configurations-compared")
        rec.case((ti, "other-xml-encodings"))
        compare(rec, ti, "other-xml-encodings", res, out, ref, case)
        shutil.rmtree(out, ignore_errors=True)
        shutil.rmtree(enc_root, ignore_errors=True)
        # the same documents written differently: attributes in reverse order, XML comments between the elements,
        # CRLF line ends, no indentation - none of it is information
        cos_root = os.path.join(work, "xml-cosmetics")
        try:
            import xml.etree.ElementTree as ET

            for rel, text in files.items():
                d = os.path.join(cos_root, rel) if rel else cos_root
                os.makedirs(d, exist_ok=True)
                root = ET.fromstring(text.encode("utf-8"))
                for el in root.iter():
                    el.attrib = dict(reversed(list(el.attrib.items())))
                    if el.tail is not None and not el.tail.strip():
                        el.tail = "\r\n"
                    if len(el) and el.text is not None and not el.text.strip():
                        el.text = "\r\n"
                for k, el in enumerate(root.iter("value")):
                    # ordinals are decimal numbers: leading zeros change nothing
                    if el.text is not None and el.text.strip().isdigit() and k % 2 == 0:
                        el.text = ("0", "00")[k % 4 // 2] + el.text.strip()
                for el in list(root.iter()):
                    if len(el) and el.tag in ("protocol", "struct", "packet", "enum", "chunked", "switch", "case"):
                        el.insert(len(el) // 2, ET.Comment(" reviewed: %s " % el.tag))
                        el.insert(0, ET.Comment(" note "))
                with open(os.path.join(d, "protocol.xml"), "wb") as fh:
                    fh.write(b"<?xml version='1.0' encoding='utf-8'?>\r\n<!-- generated for a test -->\r\n" + ET.tostring(root, encoding="utf-8"))
            out = os.path.join(work, "out-cosmetics")
            res = drive(stage.REPO, cos_root, out)
            rec.count("configurations-compared")
            rec.case((ti, "xml-cosmetics"))
            compare(rec, ti, "xml-cosmetics", res, out, ref, case)
            shutil.rmtree(out, ignore_errors=True)
        finally:
            shutil.rmtree(cos_root, ignore_errors=True)
        # into its own previous output
        res = drive(stage.REPO, xml_root, base_out)
        rec.count("configurations-compared")
        rec.case((ti, "into-own-output"))
        compare(rec, ti, "into-own-previous-output", res, base_out, ref, case)
        # into a mangled copy of its previous output: CRLF line endings, binary junk, truncated files
        mangled = os.path.join(work, "out-mangled")
        shutil.copytree(base_out, mangled)
        k = 0
        for d, _dirs, fs in os.walk(mangled):
            for f in sorted(fs):
                pth = os.path.join(d, f)
                data = open(pth, "rb").read()
                k += 1
                # CRLF line ends / binary junk / truncated / same size, other content (an equally long name)
                new = data.replace(b"\n", b"\r\n") if k % 4 == 0 else b"\xff\xfe\x00junk\x80" if k % 4 == 1 else data[: len(data) // 2] if k % 4 == 2 else data.swapcase()
                open(pth, "wb").write(new)
        res = drive(stage.REPO, xml_root, mangled)
        rec.count("configurations-compared")
        rec.case((ti, "into-mangled-previous-output"))
        compare(rec, ti, "into-mangled-previous-output", res, mangled, ref, case)
        shutil.rmtree(mangled, ignore_errors=True)
        # through protocol.py (clean then generate) over another spec's output
        cli_ok = run_cli(rec, ti, work, files, other, ref, case)
        # fresh interpreter import of the baseline output
        pkg_parent = os.path.join(work, "pkg")
        os.makedirs(pkg_parent)
        pkg = stage.copy_static_package(pkg_parent)
        shutil.copytree(base_out, os.path.join(pkg, "protocol", "_generated"))
        decl_path = os.path.join(work, "decls.json")
        json.dump(declarations(spec), open(decl_path, "w"))
        env = dict(os.environ, PYTHONDONTWRITEBYTECODE="1", PYTHONPATH=ROOT)
        r = subprocess.run([PY, "-B", "-m", "vf.mon.import_probe", pkg_parent, decl_path], capture_output=True, text=True, env=env, cwd=ROOT, timeout=300)
        rec.count("import-probes")
        try:
            pr = json.loads(r.stdout.strip().splitlines()[-1])
        except Exception:
            pr = {"ok": False, "problems": ["probe crashed: " + r.stderr[-400:]], "checked": 0}
        rec.count("declared-types-checked", pr.get("checked", 0))
        rec.case((ti, "import"))
        if not pr["ok"]:
            p0 = pr["problems"][0]
            mech = "package-not-importable" if "import eolib failed" in p0 else "declared-type-not-exported"
            has_empty = any(not getattr(d, "body", True) for _n, d, _p in spec.classes())
            if "expected an indented block" in p0:
                # finding 7 (fixed) was a declaration with an empty body; any other source of mis-indented code
                # gets its own name
                mech = "empty-body-generates-invalid-python" if has_empty else "generated-code-not-valid-python"
            else:
                hz = campaign.import_hazards(spec)
                if hz:
                    # known finding: cross-directory references against the package layering (see DESIGN 10.2)
                    mech = "non-layered-references:" + "+".join(hz)
            rec.violation(mech, "tree %d: %s" % (ti, "; ".join(pr["problems"][:3])), case)
        if ti <= 0:
            rec.sample({"tree": ti, "files_generated": len(ref), "configurations": [c for c, _ in configs] + ["into-own-output", "protocol.py-over-other-output", "fresh-import"]})
    finally:
        stage.drop(work)


def compare(rec, ti, cname, res, out, ref, case):
    if not res["ok"]:
        rec.violation("configuration-fails:" + cname.rstrip("0123456789-"), "tree %d [%s]: generator failed: %s" % (ti, cname, res["error"]), dict(case, configuration=cname))
        return
    got = tree_bytes(out)
    if set(got) != set(ref):
        extra, missing = sorted(set(got) - set(ref))[:3], sorted(set(ref) - set(got))[:3]
        rec.violation("file-set-differs:" + cname.rstrip("0123456789-"), "tree %d [%s]: file set differs (extra %r, missing %r)" % (ti, cname, extra, missing), dict(case, configuration=cname))
        return
    for k in sorted(ref):
        if got[k] != ref[k]:
            a, b = ref[k].decode("utf-8", "replace").splitlines(), got[k].decode("utf-8", "replace").splitlines()
            line = next((i for i in range(min(len(a), len(b))) if a[i] != b[i]), min(len(a), len(b)))
            rec.violation("bytes-differ:" + cname.rstrip("0123456789-"), "tree %d [%s]: %s differs at line %d: %r vs %r" % (ti, cname, k, line + 1, a[line] if line < len(a) else None, b[line] if line < len(b) else None),
                          dict(case, configuration=cname, file=k))
            return
    rec.count("identical-outputs")


def check_audit(rec, res, out, ti, cname, case):
    writes = res.get("writes", [])
    rec.count("audited-writes", len(writes))
    root = os.path.realpath(out)
    seen = set()
    for w in writes:
        rp = os.path.realpath(w)
        if not (rp == root or rp.startswith(root + os.sep)):
            rec.violation("write-outside-output-root", "tree %d [%s]: the generator opened %s for writing (output root %s)" % (ti, cname, w, out), dict(case, configuration=cname))
            return
        if rp in seen:
            rec.violation("file-written-twice", "tree %d [%s]: %s written twice in one run" % (ti, cname, os.path.relpath(rp, root)), dict(case, configuration=cname))
            return
        seen.add(rp)


def run_cli(rec, ti, work, files, other, ref, case):
    """The repository's own entry point: python protocol.py generate (clean first), over another spec's output."""
    cli = os.path.join(work, "cli")
    os.makedirs(cli)
    shutil.copy(os.path.join(stage.REPO, "protocol.py"), cli)
    shutil.copytree(os.path.join(stage.REPO, "protocol_code_generator"), os.path.join(cli, "protocol_code_generator"), ignore=shutil.ignore_patterns("__pycache__"))
    os.makedirs(os.path.join(cli, "src", "eolib", "protocol"))
    env = dict(os.environ, PYTHONDONTWRITEBYTECODE="1", PYTHONHASHSEED="9")
    gen = os.path.join(cli, "src", "eolib", "protocol", "_generated")
    for step, fs in (("other", S.render(other)), ("this", files)):
        xml = os.path.join(cli, "eo-protocol", "xml")
        shutil.rmtree(xml, ignore_errors=True)
        os.makedirs(xml)
        stage.write_tree(xml, fs)
        r = subprocess.run([PY, "-B", "protocol.py", "generate"], capture_output=True, text=True, env=env, cwd=cli, timeout=300)
        if r.returncode != 0:
            if step == "this":
                rec.violation("configuration-fails:protocol.py", "tree %d: python protocol.py generate failed: %s" % (ti, r.stderr[-300:]), dict(case, configuration="protocol.py"))
            return False
    rec.count("configurations-compared")
    rec.case((ti, "protocol.py-over-other-output"))
    compare(rec, ti, "protocol.py-over-other-output", {"ok": True}, gen, ref, case)
    return True
