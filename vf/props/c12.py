"""C12 - generated sequence starts are always transmittable and reconstructible.

The random source used by the three generate() functions is replaced by a choice-tree enumerator
(vf/mon/hostile_random.py), so every possible outcome of every draw is produced once.  Monitors per
outcome: generation does not raise; value within its documented range; wire components fit their
fields; the matching from-values constructor reproduces the same start value."""
from vf import stage
from vf.mon import hostile_random as hr

ID = "C12"
LEVEL = "exploration"
RULE = ("cases are complete draw scripts (the sequence of values returned by the substituted random source) of "
        "InitSequenceStart.generate, PingSequenceStart.generate and AccountReplySequenceStart.generate; all scripts are "
        "enumerated (odometer), each exactly once, so every case is distinct; non-trivial = every outcome")
ASSUMPTIONS = [
    "the generate() functions draw through the `random` module's functions (randrange/randint/choice/...); if no draw is observed the check samples instead and says so",
    "documented ranges: value 0..1757 (INIT, PING), 0..240 (ACCOUNT_REPLY); INIT seq1, seq2 are chars 0..252; PING seq1 is a short, seq2 a char",
]
FLOORS = {"reconstruct": 1}
CHAR, SHORT = 253, 253 * 253
PARTS = 5



def shards(tier, seed):
    from vf import engine

    return engine.with_interpreter_options(_plain_shards(tier, seed), key="fn")


def _plain_shards(tier, seed):
    return ([{"fn": fn, "part": p, "parts": PARTS} for fn in ("init", "ping", "account") for p in range(PARTS)] + [{"fn": fn, "sticky": True} for fn in ("init", "ping", "account")]
            + [{"fn": "cross", "cross": True}])


def run(shard, rec, tier, seed):
    import random as real_random

    enum = hr.Sticky(0) if shard.get("sticky") else hr.Enumerator(shard.get("part", 0), shard.get("parts", 1))
    saved = hr.install(enum, [])
    try:
        ns = stage.shim()  # imported under the patched random module, so `from random import x` is caught too
        ss = ns.sequence_start
        saved2 = hr.install(enum, [ss])
        try:
            if shard.get("cross"):
                _run_cross(rec, ss)
            elif shard.get("sticky"):
                _run_sticky(shard, rec, ss, enum)
            else:
                _run(shard, rec, ss, enum)
        finally:
            hr.uninstall(saved2)
    finally:
        hr.uninstall(saved)
    assert real_random.randrange is not enum.randrange


def _run_cross(rec, ss):
    """What the peer does on receipt, for all three kinds in one process: the same wire components arrive as an INIT
    pair, as a PING pair and as an ACCOUNT_REPLY value, in changing order; each from-values constructor must give a
    start of its own class with its own formula's value (INIT: seq1*7 + seq2 - 13, PING: seq1 - seq2)."""
    n = 0
    for a in list(range(0, 253, 3)) + [252]:
        for b in (0, 1, 2, 13, 100, 110, 251, 252, a):
            if b > 252:
                continue
            order = [("init", ss.InitSequenceStart, "from_init_values", (a, b), a * 7 + b - 13),
                     ("ping", ss.PingSequenceStart, "from_ping_values", (a, b), a - b),
                     ("account", ss.AccountReplySequenceStart, "from_value", (a,), a)]
            k = (a + b) % 3
            order = order[k:] + order[:k]
            for fn, cls, ctor, args, want in order + order[:1]:
                n += 1
                try:
                    r = getattr(cls, ctor)(*args)
                    ok = type(r) is cls and r.value == want and (fn == "account" or (r.seq1, r.seq2) == args)
                    shown = (type(r).__name__, r.value)
                except Exception as ex:
                    ok, shown = False, repr(ex)
                if not ok:
                    rec.violation("reconstruct", "%s.%s%r gives %r, expected a %s with value %d (other kinds were rebuilt from the same numbers just before)" % (cls.__name__, ctor, args, shown, cls.__name__, want),
                                  {"fn": fn, "args": list(args)})
                    return
    rec.case(("cross",), n=n)
    rec.count("reconstruct", n)
    rec.count("cross-kind-reconstructions", n)


def _run_sticky(shard, rec, ss, enum):
    """A random source that got stuck on one answer: the start it yields must be as good as any other, and
    generation must not fail on it (a redraw loop is let out after Sticky.CAP draws)."""
    fn = shard["fn"]
    cls = {"init": ss.InitSequenceStart, "ping": ss.PingSequenceStart, "account": ss.AccountReplySequenceStart}[fn]
    n = 0
    for k in range(0, 1800):
        enum.k = k
        enum.begin()
        try:
            s = cls.generate()
        except Exception as ex:
            rec.violation("generate-raises", "%s.generate() raised %r with a random source stuck on index %d (%d draws)" % (cls.__name__, ex, k, enum.in_call), {"fn": fn, "sticky": k})
            continue
        n += 1
        check(fn, cls, s, ["stuck on %d" % k], rec)
    rec.case(("sticky", fn), n=n)
    rec.count("stuck-source-outcomes", n)
    rec.count("reconstruct", n)
    rec.count("stuck-source-calls-let-out-after-cap", enum.capped)


def _run(shard, rec, ss, enum):
    fn = shard["fn"]
    cls = {"init": ss.InitSequenceStart, "ping": ss.PingSequenceStart, "account": ss.AccountReplySequenceStart}[fn]
    n = 0
    values = set()
    held = []
    while True:
        enum.begin()
        try:
            s = cls.generate()
        except hr._Exhausted:
            break
        except Exception as ex:
            rec.violation("generate-raises", "%s.generate() raised %r for draws %r" % (cls.__name__, ex, enum.current()), {"fn": fn, "draws": enum.current()})
            if not enum.advance():
                break
            continue
        draws = enum.current()
        n += 1
        # starts generated earlier stay alive (one per connection): creating another one must not change them
        for ho, hv, h1, h2, hd in held:
            try:
                now = (ho.value, getattr(ho, "seq1", None), getattr(ho, "seq2", None))
            except Exception as ex:
                now = repr(ex)
            if now != (hv, h1, h2):
                rec.violation("earlier-start-changed", "%s start generated from draws %r showed (value, seq1, seq2) = %r, after a later generate() it shows %r" % (fn, hd, (hv, h1, h2), now), {"fn": fn, "draws": hd, "later_draws": draws})
                break
        rec.count("earlier-starts-rechecked", len(held))
        try:
            held.append((s, s.value, getattr(s, "seq1", None), getattr(s, "seq2", None), draws))
        except Exception:
            pass
        if len(held) > 3:
            del held[0 if n % 2 else 1]
        check(fn, cls, s, draws, rec)
        # the same draws once more (two connections may well be dealt the same numbers one after the other): the
        # second start must be just as good as the first
        enum.begin()
        try:
            s2 = cls.generate()
            check(fn, cls, s2, draws, rec)
            if (s2.value, getattr(s2, "seq1", None), getattr(s2, "seq2", None)) != (s.value, getattr(s, "seq1", None), getattr(s, "seq2", None)):
                rec.violation("reconstruct", "%s.generate() dealt the draws %r twice in a row gives %r, then %r" % (cls.__name__, draws, s.value, s2.value), {"fn": fn, "draws": draws})
        except hr._Exhausted:
            pass
        except Exception as ex:
            rec.violation("generate-raises", "%s.generate() raised %r when dealt the draws %r a second time" % (cls.__name__, ex, draws), {"fn": fn, "draws": draws})
        rec.count("outcomes-replayed")
        values.add(getattr(s, "value", None))
        if n <= 1:
            rec.sample({"fn": fn, "draws": draws, "value": s.value, "seq1": getattr(s, "seq1", None), "seq2": getattr(s, "seq2", None)})
        if not enum.advance():
            break
    rec.case(None, n=n)
    rec.count("outcomes-" + fn, n)
    rec.count("reconstruct", n)
    rec.count("draws", enum.draws)
    rec.count("draws-beyond-enumerated-depth", enum.beyond_depth)
    rec.count("distinct-values-" + fn + "-part%d" % shard["part"], len(values))
    for r in sorted(enum.ranges_seen)[:6]:
        rec.seen("ranges-" + fn, r)
    if enum.draws == 0:
        # the implementation does not use the random module's functions: sample instead
        rec.count("fallback-sampling")
        for _ in range(40000):
            s = cls.generate()
            check(fn, cls, s, None, rec)
        rec.case(None, n=0, nontrivial=False)
        rec.evals += 40000


def check(fn, cls, s, draws, rec):
    case = {"fn": fn, "draws": draws}
    try:
        v = s.value
        if fn == "account":
            if not (isinstance(v, int) and 0 <= v <= 240):
                rec.violation("value-range", "ACCOUNT_REPLY value %r outside 0..240 (draws %r)" % (v, draws), case)
            if not (0 <= v < CHAR):
                rec.violation("component-fit", "ACCOUNT_REPLY value %r does not fit a char" % (v,), case)
            r = cls.from_value(v)
            if r.value != v:
                rec.violation("reconstruct", "from_value(%r).value = %r" % (v, r.value), case)
            return
        s1, s2 = s.seq1, s.seq2
        if not (type(s1) is int and type(s2) is int):
            rec.violation("component-fit", "%s seq1=%r seq2=%r are not plain integers" % (fn, s1, s2), case)
        if not (isinstance(v, int) and 0 <= v <= 1757):
            rec.violation("value-range", "%s value %r outside 0..1757 (draws %r)" % (fn, v, draws), case)
        if fn == "init":
            if not (0 <= s1 < CHAR and 0 <= s2 < CHAR):
                rec.violation("component-fit", "INIT seq1=%r seq2=%r do not both fit 0..252 (value %r, draws %r)" % (s1, s2, v, draws), case)
            r = cls.from_init_values(s1, s2)
        else:
            if not (0 <= s1 < SHORT and 0 <= s2 < CHAR):
                rec.violation("component-fit", "PING seq1=%r (short) seq2=%r (char) do not fit (value %r, draws %r)" % (s1, s2, v, draws), case)
            r = cls.from_ping_values(s1, s2)
        if r.value != v or r.seq1 != s1 or r.seq2 != s2:
            rec.violation("reconstruct", "%s from-values(%r,%r).value = %r, generated value %r" % (fn, s1, s2, r.value, v), case)
    except Exception as ex:
        rec.violation("check-raises", "%s outcome %r: %r" % (fn, draws, ex), case)


def finalize(agg, tier, seed):
    agg.extra["exhaustive"] = agg.counters.get("fallback-sampling", 0) == 0
    agg.extra["outcomes"] = {k: v for k, v in agg.counters.items() if k.startswith("outcomes-")}
