"""C16 - invalid objects are refused, never silently mis-serialized.

One-violation object mutants (vf/gen/invalidate.py): a valid object gets exactly one catalogued
declaration-violating change at one field at some nesting depth.  The reference interpreter must call
the original valid and the mutant invalid (otherwise the mutant is discarded and counted).  Monitor:
the real generated serialize must raise SerializationError or ValueError - returning is a violation,
any other exception class too."""
import random

from vf import campaign
from vf.gen import invalidate
from vf.gen.valuegen import ValueGen
from vf.ref.interp import Invalid, Unsupported
from vf.ref.writer import RefWriter

ID = "C16"
LEVEL = "exploration"
RULE = ("cases are (spec tree, class, valid value, mutation site, operator): corpus + SpecGen trees; every eligible site of every "
        "generated value is enumerated (required field None, fixed/padded/length-field-bounded string or array of the wrong "
        "length, integer / enum ordinal / array element at or above the type limit, case data None / of another case's class / "
        "present for an empty case) at every nesting depth, capped per value; non-trivial = the reference confirms valid "
        "original and invalid mutant; distinct = distinct (tree, class, value, site, operator)")
ASSUMPTIONS = [
    "invalidity is judged by the reference interpreter's validity rules (DESIGN 4.1), derived from the declaration, not from the generated code",
    "violations outside the property's list (length below the offset, case data for a value matching no case, None array elements) are not used",
]
FLOORS = {"invalid-objects-refused-or-not": 200}
SHARD_TIMEOUT = {"quick": 900, "thorough": 3600}
TREES = {"quick": 48, "thorough": 1000}
VALUES = {"quick": 5, "thorough": 10}
SITES = {"quick": 14, "thorough": 40}



def shards(tier, seed):
    from vf import engine

    return engine.with_interpreter_options(_plain_shards(tier, seed))


def _plain_shards(tier, seed):
    return campaign.tree_shards(TREES[tier], 3 if tier == "quick" else 16)


def run(shard, rec, tier, seed):
    for ti in shard["trees"]:
        spec, feats = campaign.make_spec(seed, ti)
        if campaign.certified(spec):
            rec.inconclusive.append("SpecGen tree %d fails its grammar certificate" % ti)
            continue
        with campaign.Tree(spec) as t:
            if t.error is not None:
                rec.count("base-spec-rejected-by-generator")
                continue
            rec.count("trees-staged")
            if t.generator_reused:
                rec.count("trees-generated-after-a-failed-run-on-a-broken-revision" if t.prior_failed else "trees-generated-by-an-instance-that-read-an-earlier-revision")
            run_tree(rec, tier, seed, ti, spec, t)


def ref_valid(it, obj, mode=False):
    w = RefWriter()
    w.sanitize = mode
    try:
        it.serialize(obj, w)
        return True
    except Invalid:
        return False
    except Unsupported:
        return None


def run_tree(rec, tier, seed, ti, spec, t):
    rng = random.Random("C16-%d-%d" % (seed, ti))
    it, br = t.interp, t.bridge
    for name, decl, path in spec.classes():
        vg = ValueGen(it, rng, "nd")
        for j in range(VALUES[tier] * (4 if ti < 0 else 1)):  # the hand-written tree gets four times the values
            obj = vg.message(name)
            if ref_valid(it, obj) is not True:
                rec.count("discard:original-not-valid")
                continue
            ss = invalidate.sites(it, obj, heavy=(tier == "thorough"))
            rng.shuffle(ss)
            # keep operator diversity: at most a few sites per operator
            per_op = {}
            chosen = []
            for s in ss:
                if per_op.get(s[1], 0) < 3:
                    per_op[s[1]] = per_op.get(s[1], 0) + 1
                    chosen.append(s)
            for site in chosen[: SITES[tier]]:
                try:
                    mut = invalidate.apply(it, obj, site, vg)
                except Exception:
                    mut = None
                if mut is None:
                    rec.count("discard:operator-not-applicable")
                    continue
                if ref_valid(it, mut) is not False:
                    rec.count("discard:mutant-not-invalid-under-reference")
                    continue
                one(rec, t, ti, name, obj, mut, site)


def one(rec, t, ti, name, obj, mut, site):
    br = t.bridge
    path, op, ins = site
    where = ".".join(str(p) for p in path) + ("." if path else "") + (ins.name if ins.kind != "switch" else ins.field + "_data")
    case = {"tree": ti, "class": name, "operator": op, "at": where, "value": mut.to_json()}
    rec.case((ti, name, repr(mut), op, where))
    try:
        real = br.build(mut, array_form=(0, 1, 2, 0)[rec.evals % 4])
    except Exception as e:
        rec.count("discard:constructor-refuses")
        rec.seen("constructor-refusals", "%s:%s" % (op, type(e).__name__))
        return
    w = t.EoWriter()
    try:
        br.real_class(mut.cls).serialize(w, real)
        exc = None
    except Exception as e:
        exc = e
    rec.count("invalid-objects-refused-or-not")
    rec.count("operator:" + op)
    rec.seen("depths", str(len(path)))
    if exc is None:
        case["xml"] = t.files
        case["bytes"] = bytes(w.to_bytearray())
        rec.violation("invalid-object-serialized:" + op, "tree %d %s: %s at %s was serialized to %s instead of being refused (value %r)" % (ti, name, op, where, bytes(w.to_bytearray()).hex()[:80], mut), case)
    elif not isinstance(exc, (t.SerializationError, ValueError)):
        case["xml"] = t.files
        rec.violation("wrong-exception:" + type(exc).__name__ + ":" + op, "tree %d %s: %s at %s raised %r instead of SerializationError/ValueError" % (ti, name, op, where, exc), case)
    else:
        rec.count("refused-with:" + type(exc).__name__)
    if rec.evals % 300 == 1:
        rec.sample({"tree": ti, "class": name, "operator": op, "at": where, "raised": type(exc).__name__ if exc else None})
