"""C11 - server verification hash equals the game client's arithmetic.

Oracle: c/hash_ref.c (32-bit int, truncating remainder) compiled at check time with clang under
UBSan (-fsanitize=undefined,integer -fno-sanitize-recover=all), plus an independent Python
truncating-remainder oracle; the two oracles must agree with each other on every challenge or the
run is inconclusive.  Monitor: real server_verification_hash(c) == oracle(c) for every challenge of
the three-byte field, and 0 <= hash < 253**4 for c <= 11,092,110.
"""
import array
import os
import shutil
import subprocess
import sys

from vf import stage

ID = "C11"
LEVEL = "exploration"
RULE = ("cases are challenge values; the whole field 0 <= c < 253^3 (16,194,277 values) is enumerated in both tiers, "
        "every case distinct by construction; non-trivial = every challenge (each evaluates all four remainders)")
ASSUMPTIONS = [
    "the game client evaluates the published formula in 32-bit int arithmetic with C's truncating remainder (c/hash_ref.c)",
    "clang's UBSan reports any overflow/UB in the oracle (the oracle aborts, making the run inconclusive)",
]
FLOORS = {"hash-equals-client": 1}
B3 = 253 ** 3
BOUND = 11092110
ROOT = os.path.dirname(os.path.dirname(os.path.dirname(os.path.abspath(__file__))))
PARTS = 64



def shards(tier, seed):
    out = _shards(tier, seed)
    # what runs under -O also runs in an interpreter that turns every warning into an error (-W error)
    return out + [dict(s, _pyflags=["-W", "error"]) for s in out if s.get("_pyflags") == ["-O"]]


def _shards(tier, seed):
    step = B3 // PARTS + 1
    out = [{"lo": lo, "hi": min(B3, lo + step)} for lo in range(0, B3, step)]
    # two slices again in interpreters that strip asserts / docstrings (the first 60,000 challenges, the pivot region)
    out += [{"lo": 1, "hi": 60001, "_pyflags": ["-O"]}, {"lo": 11062001, "hi": 11122001, "_pyflags": ["-OO"]}]
    return out


def trunc_rem(a, b):
    r = abs(a) % abs(b)
    return -r if a < 0 else r


def py_oracle(c):
    c += 1
    return 110905 + (trunc_rem(c, 9) + 1) * trunc_rem(11092004 - c, (trunc_rem(c, 11) + 1) * 119) * 119 + trunc_rem(c, 2004)


_bin = None


def build_oracle(rec):
    global _bin
    if _bin is not None:
        return _bin
    cc = shutil.which("clang") or shutil.which("clang-14")
    if not cc:
        _bin = False
        return _bin
    d = stage.scratch("vf-c11-")
    exe = os.path.join(d, "hash_ref")
    r = subprocess.run([cc, "-O1", "-fsanitize=undefined,integer", "-fno-sanitize-recover=all", "-o", exe,
                        os.path.join(ROOT, "c", "hash_ref.c")], capture_output=True, text=True)
    _bin = exe if r.returncode == 0 else False
    return _bin


def run(shard, rec, tier, seed):
    ns = stage.shim()
    real = ns.verification.server_verification_hash
    lo, hi = shard["lo"], shard["hi"]
    exe = build_oracle(rec)
    cvals = None
    if exe:
        r = subprocess.run([exe, str(lo), str(hi)], capture_output=True)
        if r.returncode != 0 or len(r.stdout) != 4 * (hi - lo):
            rec.inconclusive.append("C oracle failed (UBSan report or crash): rc=%d %s" % (r.returncode, r.stderr[-300:]))
            return
        cvals = array.array("i")
        cvals.frombytes(r.stdout)
        if sys.byteorder != "little":
            cvals.byteswap()
        rec.count("c-oracle-ubsan-values", hi - lo)
    else:
        rec.count("c-oracle-unavailable")
    INT_MAX = 253 ** 4
    for i, c in enumerate(range(lo, hi)):
        want = py_oracle(c)
        if cvals is not None and cvals[i] != want:
            rec.inconclusive.append("the two oracles disagree at challenge %d: C=%d python=%d" % (c, cvals[i], want))
            return
        try:
            got = real(c)
        except Exception as ex:
            rec.violation("raises", "server_verification_hash(%d) raised %r" % (c, ex), {"challenge": c})
            continue
        if type(got) is not int:
            rec.violation("result-type", "server_verification_hash(%d) returned %r, a %s (it is written to the wire as an EO integer)" % (c, got, type(got).__name__), {"challenge": c})
            continue
        if got != want:
            d = 11092004 - (c + 1)
            m = ((c + 1) % 11 + 1) * 119
            if d < 0 and d % m == 0:
                mech = "negative-dividend-exact-multiple"
            elif d < 0:
                mech = "negative-dividend"
            else:
                mech = "hash-mismatch"
            rec.violation(mech, "server_verification_hash(%d) = %d, the client computes %d (11092004-(c+1) = %d, modulus %d)" % (c, got, want, d, m),
                          {"challenge": c, "got": got, "client": want})
        if c <= BOUND and not (0 <= got < INT_MAX):
            rec.violation("out-of-range-below-bound", "hash(%d) = %d is negative or does not fit an EO int although challenge <= 11,092,110" % (c, got), {"challenge": c, "got": got})
    n = hi - lo
    rec.case(None, n=n)
    rec.count("hash-equals-client", n)
    rec.count("range-below-bound", max(0, min(hi, BOUND + 1) - lo))
    rec.count("negative-dividend-challenges", max(0, hi - max(lo, 11092004)))
    # the same challenges again in shuffled order (a memo keyed too coarsely would answer from the wrong entry)
    import random

    rng = random.Random("C11-%d" % lo)
    picks = [rng.randrange(lo, hi) for _ in range(3000)] + [rng.randrange(0, B3) for _ in range(500)]
    for c in picks + picks[::-1]:
        if real(c) != py_oracle(c):
            rec.violation("hash-mismatch-on-repeat", "server_verification_hash(%d) = %d on a repeated call, the client computes %d" % (c, real(c), py_oracle(c)), {"challenge": c})
            break
    rec.count("repeated-shuffled-calls", 2 * len(picks))
    # the parameter passed by name, and as an int-like object
    class _I(int):
        pass
    for c in picks[:400]:
        try:
            a, b = real(challenge=c), real(_I(c))
        except Exception as ex:
            rec.violation("raises", "server_verification_hash(challenge=%d) / (int subclass) raised %r" % (c, ex), {"challenge": c})
            break
        if a != py_oracle(c) or b != py_oracle(c):
            rec.violation("hash-mismatch-on-repeat", "server_verification_hash(challenge=%d) = %r, with an int subclass %r, the client computes %d" % (c, a, b, py_oracle(c)), {"challenge": c})
            break
    rec.count("keyword-and-int-like-calls", 800)
    # ambient numeric state of the calling thread (an application that does money arithmetic lowers the decimal
    # precision; float formatting / rounding settings): integer arithmetic must not notice
    import decimal

    for prec, traps in ((4, True), (6, True), (3, False)):
        with decimal.localcontext() as ctx:
            ctx.prec = prec
            if not traps:
                ctx.traps[decimal.InvalidOperation] = False
            for c in picks[:150] + [8, 117, 899999, 8999999, 11092110, min(hi - 1, 16194276)]:
                try:
                    got = real(c)
                except Exception as ex:
                    rec.violation("raises", "server_verification_hash(%d) raised %r under decimal precision %d" % (c, ex, prec), {"challenge": c})
                    break
                if got != py_oracle(c):
                    rec.violation("hash-mismatch-on-repeat", "server_verification_hash(%d) = %r under decimal precision %d, the client computes %d" % (c, got, prec, py_oracle(c)), {"challenge": c})
                    break
    rec.count("calls-under-a-lowered-decimal-context", 3 * 156)
    if lo == 0:
        # the hash is a pure function: called from several threads at once (other challenges each)
        from vf.mon import threads as thr

        def work(tid, rnd):
            r = random.Random("C11-thr-%d-%d" % (rnd, tid))
            base = (0, 5_000_000, 11_092_000, 14_000_000)[tid % 4]
            for _ in range(4000):
                c = base + r.randrange(0, 200_000)
                got = real(c)
                if got != py_oracle(c):
                    return [("hash-mismatch-on-repeat", "server_verification_hash(%d) = %r while other threads were hashing, the client computes %d" % (c, got, py_oracle(c)), {"challenge": c, "threads": 4})]
            return []
        found, errors = thr.hammer(work, 4, 2)
        for e in errors:
            rec.violation("raises", "a worker thread died: " + e, {"threads": 4})
        for mech, msg, case in found[:2]:
            rec.violation(mech, msg, case)
        rec.count("calls-from-concurrent-threads", 4 * 2 * 4000)
    if lo == 0 or (hi - lo) and (lo // (hi - lo)) % 24 == 0:
        # first use of a freshly imported module from eight threads at once (tables built on demand)
        from vf.mon import threads as thr

        def cwork(ns2, tid, attempt):
            f = ns2.verification.server_verification_hash
            for k in range(12):
                c = (tid * 7 + k * 5 + attempt * 3) % 44 + (0, 11092000)[k % 2]
                got = f(c)
                if got != py_oracle(c):
                    return [("hash-mismatch-on-repeat", "first use from 8 threads: server_verification_hash(%d) = %r, the client computes %d" % (c, got, py_oracle(c)), {"challenge": c, "threads": 8})]
            # and once the threads are through: every residue again, single values
            for c in range(0, 22):
                if f(c) != py_oracle(c):
                    return [("hash-mismatch-on-repeat", "after a first use from 8 threads: server_verification_hash(%d) = %r, the client computes %d" % (c, f(c), py_oracle(c)), {"challenge": c, "threads": 8})]
            return []
        found, errors = thr.cold(cwork, 60 if tier == "quick" else 300, inject=os.path.join(stage.REPO, "src", "eolib", "encrypt"))
        rec.count("line-events-with-yield-injection", getattr(thr.cold, "lines_with_injection", 0))
        for e in errors[:2]:
            rec.violation("raises", "first use from 8 threads raised: " + e, {"threads": 8})
        for mech, msg, case in found[:2]:
            rec.violation(mech, msg, case)
        rec.count("cold-start-attempts", 60 if tier == "quick" else 300)
    if lo == 0:
        rec.sample({"challenge": 0, "hash": real(0)})
    if lo <= 11092479 < hi:
        rec.sample({"challenge": 11092479, "hash": real(11092479), "client": py_oracle(11092479)})


def finalize(agg, tier, seed):
    agg.extra["exhaustive"] = agg.counters.get("hash-equals-client", 0) >= B3
    agg.extra["oracle"] = "clang UBSan-instrumented C oracle + python truncating-remainder oracle" if agg.counters.get("c-oracle-ubsan-values") else "python oracle only (clang missing)"
