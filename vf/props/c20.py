"""C20 - the public namespace resolves every documented name to the right object.

Injected environment: one fresh interpreter per choice of the eolib module imported first (every
static module / package and a sample of generated ones), then `import eolib`.  Monitors
(vf/mon/ns_probe.py): every module and subpackage at any depth is reachable by attribute access along
its dotted path and is the object the import system resolves (sys.modules); every public name a
hand-written module defines, and every generated class, is one and the same object in its defining
module, in its home subpackage and in the top-level package."""
import json
import os
import random
import shutil
import subprocess
import sys

from vf import campaign, stage
from vf.gen import spec as S
from vf.props.c18 import declarations
from vf.ref import grammar

ID = "C20"
LEVEL = "exploration"
RULE = ("cases are (spec tree, first-imported module): corpus + SpecGen trees incl. type names that become awkward module names "
        "(Data, Encrypt, Protocol, acronyms, digits) x every eolib module/package (static ones all, generated ones sampled in "
        "quick, all in thorough) as the first import of a fresh interpreter; each case checks all dotted paths, all public "
        "names of hand-written modules and all generated classes; non-trivial = every case; distinct = distinct (tree, module)")
ASSUMPTIONS = [
    "'public names a subpackage defines' = a module's __all__ if it declares one, else its non-underscore classes/functions and top-level constants (ast scan); names merely imported into a module are not defined there",
    "home subpackage = the package directory the module file sits in; documented modules = every .py file below eolib (what docs/gen_ref_pages.py publishes)",
]
FLOORS = {"interpreters-run": 20, "dotted-paths-walked": 200}
SHARD_TIMEOUT = {"quick": 900, "thorough": 5400}
TREES = {"quick": 4, "thorough": 40}
ROOT = os.path.dirname(os.path.dirname(os.path.dirname(os.path.abspath(__file__))))
PY = sys.executable


COLLIDING = ["Client", "Server", "PACKET", "Net", "Map", "Pub", "Data", "Encrypt", "Protocol", "Sys", "Pyramid", "PyThing", "XmlDoc", "Init", "Generated", "Eolib",
             "Globals", "Str", "Len", "Range", "Set", "Open", "Bytes", "Filter", "Sorted", "Getattr", "Vars", "Dir", "Print",
             "Object", "Tuple", "Zip", "Isinstance", "Setattr", "Hasattr", "Any", "All", "Iter", "Next", "Super", "List", "Dict", "Type", "Int",
             # names the generated modules import for their own use
             "Sequence", "Iterable", "Optional", "Cast", "Annotations", "Mapping", "Callable", "Union", "Enum", "IntEnum",
             # a name (and with it a module name and its import lines) far longer than any line-length limit
             "Extraordinarily" + "LongButPerfectlyValidTypeName" * 4 + "ForAThing"]
PATHS = ["", "net", "net/client", "net/server", "map", "pub", "pub/server"]
FORBIDDEN = {"": {"net", "map", "pub"}, "net": {"client", "server"}, "pub": {"server"}}
N_COLLISION = {"quick": 7, "thorough": 14}


def collision_tree(seed, k):
    """A SpecGen tree plus one type per awkward name, placed in directory (k + i) mod 7 (skipping the
    placements where the module would collide with a sub-directory): every name meets every directory
    over 7 consecutive k."""
    spec, feats = campaign.make_spec(seed, 5000 + k, awkward_names=False, allow_empty=False)
    taken = {n.lower() for n in spec.types()}
    placed = []
    for i, name in enumerate(COLLIDING):
        path = PATHS[(k + i) % len(PATHS)]
        if name.lower() in FORBIDDEN.get(path, ()) or name.lower() in taken:
            continue
        if i % 2:
            spec.files[path].enums.append(S.Enum(name, "char", [("A", 1, None), ("B", 2, None)]))
        else:
            spec.files[path].structs.append(S.Struct(name, [S.Field("x", "char")]))
        placed.append(name)
    # somebody refers to every one of them (import statements for them are generated), from the last
    # directory the generator visits in a layered tree
    spec.files["net/server"].structs.append(S.Struct("UsesAwkward%d" % k, [S.Field("f%d" % j, n) for j, n in enumerate(placed)]))
    return spec


def cross_tree():
    """The hand-written tree plus cross-directory references in every direction the package layering
    supports (a later-imported package using types of an earlier one, siblings included)."""
    spec = campaign.corpus_spec()
    F = S.Field
    # (the hand-written tree's map -> pub reference would make pub an early package: not in this tree)
    spec.files["map"].structs = [s for s in spec.files["map"].structs if s.name != "MapItemSpawn"]
    spec.files["net/client"].structs.append(S.Struct("CliThing", [F("a", "char")]))
    spec.files["net/server"].structs.append(S.Struct("SrvThing", [F("a", "short")]))
    spec.files["net/server"].structs.append(S.Struct("SrvUsesCli", [F("t", "CliThing"), F("d", "Direction")]))
    spec.files["pub"].structs.append(S.Struct("PubUsesSrv", [F("t", "SrvThing"), F("k", "InitReply")]))
    spec.files["pub/server"].structs.append(S.Struct("PubSrvUsesCli", [F("t", "CliThing"), F("w", "WalkAction"), F("p", "PubUsesSrv")]))
    spec.files["map"].structs.append(S.Struct("MapUsesNet", [F("v", "Version"), F("w", "Weight")]))
    return spec


def sibling_names_tree(case_collision):
    """Type names of one directory whose module names are close.  With case_collision=False the module names
    still differ (loot__table / loot_table, x1_thing / x_1_thing ...): every class must be exported.  With
    case_collision=True two names are equal up to case (ItemID / ItemId -> item_id.py twice): known finding 14."""
    spec = campaign.corpus_spec()
    pairs = [("Loot_Table", "LootTable"), ("X1Thing", "X_1Thing"), ("A_B", "AB9")]
    if case_collision:
        pairs = [("ItemID", "ItemId"), ("NPCKind", "NpcKind")]
    for path, (a, b) in zip(("map", "pub", "net/server"), pairs):
        spec.files[path].structs.append(S.Struct(a, [S.Field("x", "char")]))
        spec.files[path].enums.append(S.Enum(b, "char", [("A", 1, None), ("B", 2, None)]))
    names = [n for pair in pairs[:len(("map", "pub", "net/server"))] for n in pair]
    spec.files["net/server"].structs.append(S.Struct("UsesSiblings", [S.Field("f%d" % j, n) for j, n in enumerate(names)]))
    return spec


def empty_leaf_tree():
    """The hand-written tree with one leaf directory (the first that nobody refers to) left without types:
    its protocol.xml is '<protocol></protocol>', its generated package must exist all the same."""
    for leaf in ("pub/server", "map", "net/client", "net/server"):
        spec = campaign.corpus_spec()
        f = spec.files[leaf]
        f.enums, f.structs, f.packets = [], [], []
        if not grammar.check(spec):
            return spec
    return campaign.corpus_spec()


def enums_only_tree():
    """A tree whose generated code needs next to nothing from the library (enums, an empty struct, a packet whose
    only field is optional): whatever the public packages export, they must export it by themselves, not because a
    generated module happens to import it."""
    E = S.Enum
    spec = S.parse({k: "<protocol>\n</protocol>\n" for k in ("", "map", "net", "net/client", "net/server", "pub", "pub/server")})
    spec.files["net"].enums += [E("PacketFamily", "byte", [("Connection", 1, None), ("Init", 255, None)]), E("PacketAction", "byte", [("Request", 1, None), ("Init", 255, None)])]
    spec.files[""].enums.append(E("Colour", "char", [("Red", 1, None), ("Green", 2, None)]))
    spec.files["map"].enums.append(E("Terrain", "short", [("Grass", 0, None), ("Water", 7, None)]))
    spec.files["pub"].structs.append(S.Struct("Nothing", []))
    spec.files["net/client"].packets.append(S.Packet("Connection", "Request", [S.Field("note", "string", optional=True)]))
    return spec


def lonely_optional_length_tree():
    """Types whose only optional member is a trailing `<length optional="true"/>` (no array, no other optional
    field in the same generated module): what the class body's annotations need must be imported by the module
    itself, whichever member asked for it."""
    E = S.Enum
    spec = S.parse({k: "<protocol>\n</protocol>\n" for k in ("", "map", "net", "net/client", "net/server", "pub", "pub/server")})
    spec.files["net"].enums += [E("PacketFamily", "byte", [("Talk", 1, None), ("Init", 255, None)]), E("PacketAction", "byte", [("Tell", 1, None), ("Init", 255, None)])]
    spec.files["pub"].structs.append(S.Struct("Tail", [S.Field("kind", "char"), S.Length("extra_size", "short", 0, True)]))
    spec.files[""].structs.append(S.Struct("Stub", [S.Field("name", "string", length=4, padded=True), S.Length("rest_count", "char", 1, True)]))
    spec.files["net/server"].packets.append(S.Packet("Talk", "Tell", [S.Field("x", "char"), S.Length("n", "three", 0, True)]))
    spec.files["net/client"].packets.append(S.Packet("Talk", "Tell", [S.Field("x", "char")]))
    return spec


class _Relabel:
    """Every violation on the case-collision tree is the known finding, whatever its symptom."""

    def __init__(self, rec):
        self._rec = rec

    def violation(self, mech, msg, case=None):
        return self._rec.violation("module-name-collision:type-names-equal-up-to-case", "[%s] %s" % (mech, msg), case)

    def __getattr__(self, name):
        return getattr(self._rec, name)


def shards(tier, seed):
    out = []
    for ti in [-1, 2000, 3000, 3001, 3002, 3003, 3004] + list(range(TREES[tier])) + [1000 + k for k in range(N_COLLISION[tier])]:
        for part in range(4):
            out.append({"tree": ti, "part": part, "parts": 4})
    return out


IMPORT_SYMPTOMS = ("generated-class-not-exported", "generated-class-missing", "first-import-fails", "import-eolib-fails",
                   "module-not-importable", "public-name-not-exported", "attribute-walk-fails")


def classify(mech, text, hazards=()):
    if hazards and mech in IMPORT_SYMPTOMS:
        # known finding: cross-directory references against the package layering (see DESIGN 10.2)
        return "non-layered-references:" + "+".join(hazards)
    if mech in ("attribute-walk-reaches-wrong-object", "attribute-walk-fails"):
        # the lower-case helpers generated modules import (from __future__ import annotations, from typing import cast)
        # travel along the star-imports like the PascalCase ones (finding 15) and land on the package attribute that
        # should be the module of a type named Annotations / Cast
        import re

        m = re.match(r"(eolib\.protocol\._generated[\w.]*)\.(annotations|cast): ", text)
        if m and ("_Feature(" in text or "function cast" in text or " is cast," in text):
            return "generated-module-shadowed-by-imported-helper:" + m.group(2)
        return "subpackage-attribute-shadowed-by-star-import"
    return mech


def run(shard, rec, tier, seed):
    ti = shard["tree"]
    if ti in (3000, 3001):
        spec = sibling_names_tree(ti == 3001)
        rec.count("sibling-name-trees")
        if ti == 3001:
            rec = _Relabel(rec)
    elif ti == 3002:
        spec = empty_leaf_tree()
        rec.count("empty-leaf-trees")
    elif ti == 3003:
        spec = enums_only_tree()
        rec.count("trees-that-need-nothing-from-the-library")
    elif ti == 3004:
        spec = lonely_optional_length_tree()
        rec.count("trees-with-a-lone-optional-length")
    elif ti == 2000:
        spec = cross_tree()
        rec.count("cross-reference-trees")
    elif ti >= 1000:
        spec = collision_tree(seed, ti - 1000)
        rec.count("collision-trees")
        # the previous collision tree (same names, other directories) goes through the generator first in
        # this very process: nothing of it may survive into the tree under test
        prev = collision_tree(seed, ti - 1000 + 1)
        if not grammar.check(prev):
            st0, ok0, _e, _o = stage.full(S.render(prev), do_import=False)
            if st0 is not None:
                st0.close()
            rec.count("trees-generated-before-in-same-process")
    else:
        spec, feats = campaign.make_spec(seed, ti, awkward_names=True, allow_empty=False)
    if grammar.check(spec):
        rec.inconclusive.append("SpecGen tree %d fails its grammar certificate" % ti)
        return
    files = S.render(spec)
    hazards = campaign.import_hazards(spec)
    if hazards:
        rec.count("trees-with-non-layered-references")
    # the generator's roots are spelled absolutely, as '.', or relative to the working directory in turn
    spelling = ("absolute", "dot", "absolute", "relative")[ti % 4]
    rec.seen("root-spellings", spelling)
    # every third tree is generated into a directory that still holds the output of an earlier revision in which
    # some types lived in other directories
    earlier = None
    if ti % 3 == 1:
        earlier = collision_tree(seed, ti - 1000 + 1) if 1000 <= ti < 2000 else campaign.moved_revision(spec)
        if earlier is not None and grammar.check(earlier):
            earlier = None
    # ... and every fourth is staged below a directory that is itself called eolib (a checkout cloned under that name)
    # every fifth is generated by an instance that was created for (and ran on) a revision with some types elsewhere
    prior = None
    if ti % 5 == 3 and earlier is None:
        mv = collision_tree(seed, ti - 1000 + 1) if 1000 <= ti < 2000 else campaign.moved_revision(spec)
        if mv is not None and not grammar.check(mv):
            prior = S.render(mv)
            rec.count("trees-generated-by-an-instance-that-read-another-revision")
    below = "eolib" if ti % 4 == 2 else None
    if below:
        rec.count("trees-staged-below-a-directory-named-eolib")
    st, ok, err, out = stage.full(files, do_import=False, spelling=spelling, stale_output=(ti % 2 == 0), earlier_output_files=S.render(earlier) if earlier is not None else None, below=below, prior_files=prior)
    if ti % 2 == 0:
        rec.count("trees-generated-over-stale-output")
    if earlier is not None:
        rec.count("trees-generated-over-the-output-of-an-earlier-revision")
    if not ok:
        rec.count("base-spec-rejected-by-generator")
        return
    try:
        pkg_parent = st.pkg_parent
        decl_path = os.path.join(st.root, "decls.json")
        decls = declarations(spec)
        json.dump(decls, open(decl_path, "w"))
        from vf.mon.ns_probe import static_modules, without_leftovers

        mods = sorted(without_leftovers(static_modules(os.path.join(pkg_parent, "eolib")), decls))
        static = [m for m in mods if "._generated" not in m]
        generated = [m for m in mods if "._generated" in m]
        rng = random.Random("C20-%d-%d" % (seed, ti))
        rng.shuffle(generated)
        firsts = static + (generated if tier == "thorough" else generated[:8])
        firsts = [m for i, m in enumerate(firsts) if i % shard["parts"] == shard["part"]]
        env = dict(os.environ, PYTHONDONTWRITEBYTECODE="1", PYTHONPATH=ROOT)
        for first in firsts:
            r = subprocess.run([PY, "-B", "-m", "vf.mon.ns_probe", pkg_parent, first, decl_path], capture_output=True, text=True, env=env, cwd=ROOT, timeout=300)
            rec.case((ti, first))
            rec.count("interpreters-run")
            try:
                res = json.loads(r.stdout.strip().splitlines()[-1])
            except Exception:
                rec.inconclusive.append("namespace probe crashed for first import %s: %s" % (first, r.stderr[-300:]))
                continue
            c = res["counts"]
            rec.count("dotted-paths-walked", c["paths"])
            rec.count("static-public-names-checked", c["static_names"])
            rec.count("generated-classes-checked", c["generated_classes"])
            rec.count("leftover-module-files-ignored", c.get("leftover_files_ignored", 0))
            rec.seen("first-imports", first if "._generated" not in first else "eolib.protocol._generated.*")
            for mech, text in res["problems"][:6]:
                rec.violation(classify(mech, text, hazards), "tree %d, first import %s: %s" % (ti, first, text), {"tree": ti, "first_import": first, "problem": text, "xml": files})
        if shard["part"] == 0:
            rec.sample({"tree": ti, "modules": len(mods), "first_imports_tried": len(firsts), "example_first_import": firsts[0] if firsts else None})
    finally:
        st.close()
