"""C19 - generated protocol objects are immutable snapshots.

Monitors on real generated instances (constructed and deserialized, incl. nested structs and case
data): setattr / delattr on every public field and on byte_size must raise AttributeError; array
properties are tuples; mutating the list a constructor was given (append / clear / replace element)
changes neither the property nor the serialization; two serializations of one instance are identical."""
import random

from vf import campaign
from vf.gen.valuegen import ValueGen
from vf.ref.interp import Invalid, Unsupported
from vf.ref.writer import RefWriter

ID = "C19"
LEVEL = "exploration"
RULE = ("cases are (spec tree, class, instance, attempted mutation): corpus + SpecGen trees, every class incl. nested structs and "
        "case-data classes reached through values; instances built from lists, tuples and generators and instances obtained "
        "by deserialization; mutations = setattr and delattr on each public field and byte_size, caller-side list mutations; "
        "non-trivial = the class has at least one field; distinct = distinct (tree, class, value, source)")
ASSUMPTIONS = ["type-conforming arguments only (bytes for blobs - a caller-owned bytearray is outside the declared type)"]
FLOORS = {"setattr-attempts": 500, "aliasing-checks": 50, "double-serializations": 200}
SHARD_TIMEOUT = {"quick": 900, "thorough": 3600}
TREES = {"quick": 48, "thorough": 800}
VALUES = {"quick": 6, "thorough": 12}



def shards(tier, seed):
    from vf import engine

    return engine.with_interpreter_options(_plain_shards(tier, seed))


def _plain_shards(tier, seed):
    return campaign.tree_shards(TREES[tier], 3 if tier == "quick" else 16)


def run(shard, rec, tier, seed):
    for ti in shard["trees"]:
        spec, feats = campaign.make_spec(seed, ti)
        if campaign.certified(spec):
            rec.inconclusive.append("SpecGen tree %d fails its grammar certificate" % ti)
            continue
        with campaign.Tree(spec) as t:
            if t.error is not None:
                rec.count("base-spec-rejected-by-generator")
                continue
            rec.count("trees-staged")
            if t.generator_reused:
                rec.count("trees-generated-after-a-failed-run-on-a-broken-revision" if t.prior_failed else "trees-generated-by-an-instance-that-read-an-earlier-revision")
            rng = random.Random("C19-%d-%d" % (seed, ti))
            for name, decl, path in spec.classes():
                vg = ValueGen(t.interp, rng, "nd")
                for j in range(VALUES[tier] * (4 if ti < 0 else 1)):  # the hand-written tree gets four times the values
                    one(rec, t, ti, name, vg.message(name), j, rng)


def serialize(t, C, inst):
    w = t.EoWriter()
    try:
        C.serialize(w, inst)
        return bytes(w.to_bytearray())
    except Exception as e:
        return "raise:" + type(e).__name__


def probe_instance(rec, t, ti, source):
    def fn(inst, cls, names, where):
        for n in names + ["byte_size"]:
            before = None
            try:
                before = getattr(inst, n)
            except Exception:
                pass
            for action in ("setattr", "setattr-same-value", "setattr-equal-value", "delattr"):
                rec.count("setattr-attempts")
                try:
                    if action == "setattr":
                        setattr(inst, n, 12345)
                    elif action == "setattr-same-value":
                        # writing back what the getter returned is an assignment all the same
                        setattr(inst, n, before)
                    elif action == "setattr-equal-value":
                        # ... and so is an equal value of another type (True for 1, a plain int for an enum member, a
                        # list for a tuple)
                        eq = (bool(before) if type(before) is int and before in (0, 1) else int(before) if isinstance(before, int) and type(before) is not int
                              else list(before) if isinstance(before, tuple) else str(before) if isinstance(before, str) else before)
                        setattr(inst, n, eq)
                    else:
                        delattr(inst, n)
                    ok = False
                    exc = None
                except AttributeError:
                    ok = True
                except Exception as e:
                    ok = False
                    exc = e
                if not ok:
                    rec.violation("public-attribute-assignable", "tree %d %s%s (%s instance): %s of %r did not raise AttributeError (%r)" % (ti, ".".join(cls), where, source, action, n, exc),
                                  {"tree": ti, "class": ".".join(cls), "attribute": n, "action": action, "source": source, "xml": t.files})
                    return
            if before is not None and isinstance(before, list):
                rec.violation("array-not-tuple", "tree %d %s%s.%s is a list" % (ti, ".".join(cls), where, n), {"tree": ti, "class": ".".join(cls), "attribute": n, "xml": t.files})
            # what a getter hands out must not be a handle on the instance's state: anything mutable is changed
            # in place here; the caller (one) re-serializes afterwards and compares
            if isinstance(before, tuple):
                # elements of an array: the tuple is immutable, what it holds must be too
                for el in before[:4]:
                    if isinstance(el, (bytearray, list)):
                        rec.count("mutable-values-handed-out")
                        el.extend(b"\x01\x02") if isinstance(el, bytearray) else el.append(0)
                        rec.violation("getter-hands-out-mutable-state", "tree %d %s%s.%s (%s instance) holds a %s element: changing it in place changes the instance" % (
                            ti, ".".join(cls), where, n, source, type(el).__name__), {"tree": ti, "class": ".".join(cls), "attribute": n, "source": source, "xml": t.files})
                        break
            if isinstance(before, (bytearray, list, dict, set)):
                rec.count("mutable-values-handed-out")
                try:
                    if isinstance(before, bytearray):
                        before.extend(b"\x01\x02")
                    elif isinstance(before, list):
                        before.append(before[0] if before else 0)
                    rec.violation("getter-hands-out-mutable-state", "tree %d %s%s.%s (%s instance) is a %s: changing it in place changes the instance" % (
                        ti, ".".join(cls), where, n, source, type(before).__name__), {"tree": ti, "class": ".".join(cls), "attribute": n, "source": source, "xml": t.files})
                except Exception:
                    pass
        rec.count("instances-probed")
        rec.seen("classes-probed-depth", str(len(cls)))
    return fn


FORMS = ["list", "tuple", "generator", "list-or-bytearray", "read-only-view", "range-or-deque", "array.array-or-dict-values"]


def runs(obj, it):
    """A copy of the value whose integer arrays are runs of consecutive numbers (what one would pass as a range)."""
    import copy

    from vf.ref import numbers
    from vf.ref.interp import Obj

    obj = copy.deepcopy(obj)

    def visit(o):
        body, _c, _i = it.body_of(tuple(o.cls))

        def walk(b):
            for ins in b:
                if ins.kind == "chunked":
                    walk(ins.body)
                elif ins.kind == "array" and isinstance(o.fields.get(ins.name), list):
                    t = it.resolve(ins.type)
                    v = o.fields[ins.name]
                    if t.kind == "int" and v and all(type(x) is int for x in v):
                        lim = numbers.LIMIT[t.wire]
                        first = max(0, min(v[0], lim - len(v)))
                        if first + len(v) <= lim:
                            o.fields[ins.name] = [first + k for k in range(len(v))]
                    for el in v:
                        if isinstance(el, Obj):
                            visit(el)
                elif ins.kind == "field" and isinstance(o.fields.get(ins.name), Obj):
                    visit(o.fields[ins.name])
                elif ins.kind == "switch" and isinstance(o.fields.get(ins.field + "_data"), Obj):
                    visit(o.fields[ins.field + "_data"])
        walk(body)
    visit(obj)
    return obj


def one(rec, t, ti, name, obj, j, rng):
    it, br = t.interp, t.bridge
    C = br.real_class(obj.cls)
    case = {"tree": ti, "class": name, "value": obj.to_json()}
    rec.case((ti, name, repr(obj), "constructed"), nontrivial=bool(obj.fields))
    handles = []
    form = j % 7
    if form == 5:
        obj = runs(obj, it)
        case = {"tree": ti, "class": name, "value": obj.to_json()}
    try:
        inst = br.build(obj, array_form=form, handles=handles if form in (0, 3, 4) else None)
    except Exception as e:
        rec.count("constructor-raised")
        return
    # array properties are tuples
    for pname, ins in br.params(obj.cls):
        if ins.kind == "array" and obj.fields.get(pname) is not None:
            rec.count("tuple-checks")
            v = getattr(inst, pname)
            if not isinstance(v, tuple):
                case["xml"] = t.files
                rec.violation("array-not-tuple", "tree %d %s.%s is %s, not tuple (built from %s)" % (ti, name, pname, type(v).__name__, FORMS[form]), case)
    def snapshot(x):
        out = [repr(x), getattr(x, "byte_size", None)]
        for pn, _ins in br.params(obj.cls):
            try:
                out.append(repr(getattr(x, pn)))
            except Exception as e:
                out.append("raises " + type(e).__name__)
        return out
    b1 = serialize(t, C, inst)
    # an instance of the same class built earlier is still alive: creating, serializing or deserializing
    # another one must not have changed it (state shared through the class)
    held = getattr(t, "held_instances", None)
    if held is None:
        held = t.held_instances = {}
    prev = held.get(obj.cls)
    if prev is not None:
        rec.count("earlier-instances-rechecked")
        again = serialize(t, C, prev[0])
        if again != prev[1] or repr(prev[0]) != prev[2]:
            case["xml"] = t.files
            rec.violation("changed-by-another-instance", "tree %d %s: an instance built earlier serialized to %r, after another instance of the class was built it gives %r" % (ti, name, prev[1], again), case)
    if isinstance(b1, bytes) and len(b1) < 2000:
        held[obj.cls] = (inst, b1, repr(inst))
    cheap = isinstance(b1, bytes) and len(b1) > 20000  # reprs of huge values would dominate the run
    if cheap:
        def snapshot(x):  # noqa: F811
            return [getattr(x, "byte_size", None)]
    snap0 = snapshot(inst)
    b2 = serialize(t, C, inst)
    # every public method of the instance / class is exercised; none of them may change what the instance shows
    for meth in ("write", "family", "action", "__repr__", "__str__", "__hash__"):
        f = getattr(inst, meth, None)
        if callable(f):
            try:
                f(t.EoWriter()) if meth == "write" else f()
            except Exception:
                pass
    # the same instance serialized into a writer that is already sanitising, then normally again: what
    # one serialization does to shared helpers must not change the next one
    wm = t.EoWriter()
    wm.string_sanitization_mode = True
    try:
        C.serialize(wm, inst)
    except Exception:
        pass
    b_again = serialize(t, C, inst)
    # ... nor may it matter that the writer already holds an earlier serialization of the same instance
    if isinstance(b1, bytes):
        w2 = t.EoWriter()
        try:
            C.serialize(w2, inst)
            C.serialize(w2, inst)
            twice = bytes(w2.to_bytearray())
        except Exception as e:
            twice = "raise:" + type(e).__name__
        rec.count("same-writer-double-serializations")
        if twice != b1 + b1:
            case["xml"] = t.files
            rec.violation("serialization-not-repeatable", "tree %d %s: serializing the instance twice into one writer gives %r, expected %r twice" % (ti, name, twice, b1), case)
    # ... nor that the writer saw another object being refused half-way in between
    if isinstance(b1, bytes) and j % 2 == 0:
        from vf.gen import invalidate

        w3 = t.EoWriter()
        try:
            ss = invalidate.sites(it, obj)
            bad = invalidate.apply(it, obj, ss[j % len(ss)], None) if ss else None
            if bad is not None:
                bad_inst = br.build(bad)
                shown_bad = repr(bad_inst)
                try:
                    C.serialize(w3, bad_inst)
                except Exception:
                    rec.count("refused-objects-in-between")
                # whether it was refused or not: serializing is reading
                if repr(bad_inst) != shown_bad:
                    case["xml"] = t.files
                    rec.violation("changed-by-public-method", "tree %d %s: serialize() changed the instance it was given (an object the declaration forbids): %s -> %s" % (ti, name, shown_bad[:150], repr(bad_inst)[:150]), case)
        except Exception:
            pass
        n3 = len(w3)
        try:
            C.serialize(w3, inst)
            after_refusal = bytes(w3.to_bytearray())[n3:]
        except Exception as e:
            after_refusal = "raise:" + type(e).__name__
        if after_refusal != b1:
            case["xml"] = t.files
            rec.violation("serialization-not-repeatable", "tree %d %s: after the writer refused another object, the instance serializes to %r instead of %r" % (ti, name, after_refusal, b1), case)
    if b_again != b1:
        case["xml"] = t.files
        rec.violation("serialization-not-repeatable", "tree %d %s: after serializing the instance into a sanitising writer, a normal serialization gives %r instead of %r" % (ti, name, b_again, b1), case)
    rec.count("public-method-snapshots")
    snap1 = snapshot(inst)
    if snap1 != snap0:
        diff = next((i for i, (a, b) in enumerate(zip(snap0, snap1)) if a != b), 0)
        case["xml"] = t.files
        rec.violation("changed-by-public-method", "tree %d %s: calling serialize / write / family / action / repr changed the instance: %s -> %s" % (ti, name, snap0[diff][:120], snap1[diff][:120]), case)
    rec.count("double-serializations")
    if b1 != b2:
        case["xml"] = t.files
        rec.violation("serialization-not-repeatable", "tree %d %s: two serializations of one instance differ: %r vs %r" % (ti, name, b1, b2), case)
    # caller-side mutation of the lists the constructors were given
    if handles:
        snapshot = [tuple(h) for h in handles]
        for h in handles:
            h.append(h[0] if h else 0)
            if len(h) > 1:
                h[0] = h[-1]
            if rng.random() < 0.3:
                h.clear()
        rec.count("aliasing-checks", len(handles))
        b3 = serialize(t, C, inst)
        diffs = br.compare(obj, inst) if not isinstance(b1, str) or True else []
        if b3 != b1 or diffs:
            case["xml"] = t.files
            rec.violation("aliases-caller-list", "tree %d %s: mutating the lists passed to the constructor changed the object (%s) / its bytes" % (ti, name, "; ".join(diffs[:2])), case)
    br.walk(obj, inst, probe_instance(rec, t, ti, "constructed"))
    b4 = serialize(t, C, inst)
    if b4 != b1:
        case["xml"] = t.files
        rec.violation("mutated-through-public-interface", "tree %d %s: bytes changed after the assignment attempts" % (ti, name), case)
    # deserialized instances
    if isinstance(b1, bytes):
        from vf.mon.lockstep import FuelExhausted, LockstepReader
        from vf.ref.reader import RefReader

        try:
            # always read through the fuel-limited proxy: a deserializer may not terminate (see C03)
            back = C.deserialize(LockstepReader(t.EoReader(b1), RefReader(b1), fuel=min(50 * len(b1) + 2000, 6 * len(b1) + 200000)))
        except (Exception, FuelExhausted):
            rec.count("deserialize-raised-or-out-of-fuel")
            return
        rec.case((ti, name, b1, "deserialized"), nontrivial=bool(obj.fields))
        mr = None
        try:
            from vf.ref.reader import RefReader

            mback = it.deserialize(obj.cls, RefReader(b1), [20000])
        except Exception:
            mback = None
        d1 = serialize(t, C, back)
        # further deserializations of the same class (other lengths: truncated, empty, with a trailing byte) must
        # not reach into the instance already handed out
        shown = (repr(back), getattr(back, "byte_size", None))
        for other in (b1[: len(b1) // 2], b"", b1 + b"\x01"):
            try:
                C.deserialize(LockstepReader(t.EoReader(other), RefReader(other), fuel=min(50 * len(other) + 2000, 6 * len(other) + 200000)))
            except (Exception, FuelExhausted):
                pass
        rec.count("earlier-instances-rechecked")
        if (repr(back), getattr(back, "byte_size", None)) != shown:
            case["xml"] = t.files
            rec.violation("changed-by-another-instance", "tree %d %s: a deserialized instance showed %s / byte_size %r; after other inputs were deserialized it shows %s / %r" % (
                ti, name, shown[0][:120], shown[1], repr(back)[:120], getattr(back, "byte_size", None)), case)
        if mback is not None:
            br.walk(mback, back, probe_instance(rec, t, ti, "deserialized"))
        else:
            probe_instance(rec, t, ti, "deserialized")(back, obj.cls, [n for n, _ in br.params(obj.cls)], "")
        for pname, ins in br.params(obj.cls):
            if ins.kind == "array":
                v = getattr(back, pname)
                rec.count("tuple-checks")
                if v is not None and not isinstance(v, tuple):
                    case["xml"] = t.files
                    rec.violation("array-not-tuple", "tree %d %s.%s of a deserialized instance is %s" % (ti, name, pname, type(v).__name__), case)
        d2 = serialize(t, C, back)
        rec.count("double-serializations")
        if d1 != d2:
            case["xml"] = t.files
            rec.violation("serialization-not-repeatable", "tree %d %s (deserialized): %r vs %r" % (ti, name, d1, d2), case)
    if rec.evals % 300 == 1:
        rec.sample({"tree": ti, "class": name, "value": obj.to_json(), "built_from": FORMS[form]})
