"""C14 - protocol enums accept every integer and keep its value.

Construction histories with membership snapshots on real enum classes (hand-written IntEnum classes
using the repository's ProtocolEnumMeta, and enums generated from specs): for every integer of the
workload E(n) must not raise; a declared ordinal returns the identical member object; any other
integer returns an instance of E that ==, hashes, int()s and .value-s to n and is named
Unrecognized(n); list(E) / E.__members__ are identical before and after the whole history, for
shuffled construction orders.  The hand-written part also runs under the second interpreter
available in the sandbox (3.11)."""
import json
import os
import random
import subprocess
import sys

ID = "C14"
LEVEL = "exploration"
RULE = ("cases are (enum declaration, integer, position in a shuffled construction history): hand-written declarations (dense, "
        "sparse, zero-less, None member, negative / huge ordinals, single member) and every enum generated from corpus + "
        "SpecGen trees x integers -5..N, 253^k +- 1, 2^31, 2^63, 2^70 and every declared ordinal +- 1; non-trivial = every "
        "construction; distinct = distinct (enum, integer)")
ASSUMPTIONS = ["interpreters available in the sandbox: CPython 3.12 (repository venv) and 3.11 (tooling venv, hand-written enums only)"]
FLOORS = {"constructions-checked": 5000, "membership-snapshots-compared": 10}
TREES = {"quick": 24, "thorough": 400}
ROOT = os.path.dirname(os.path.dirname(os.path.dirname(os.path.abspath(__file__))))

HAND = {
    "Dense": {"A": 0, "B": 1, "C": 2},
    "Sparse": {"Low": 1, "Mid": 100, "High": 64008},
    "ZeroLess": {"One": 1, "Two": 2},
    "WithNone": {"None_": 0, "Some": 7},
    "Single": {"Only": 5},
    "Huge": {"Max": 253 ** 4 - 1, "Neg": -3, "Zero": 0},
}



def shards(tier, seed):
    from vf import engine

    return engine.with_interpreter_options(_plain_shards(tier, seed), key="kind")


def _plain_shards(tier, seed):
    from vf import campaign

    out = [{"kind": "hand", "span": 3000 if tier == "quick" else 70000}, {"kind": "py311", "span": 2000 if tier == "quick" else 20000},
           {"kind": "hand-warnings-as-errors", "span": 1500 if tier == "quick" else 20000}]
    out += [dict(s, kind="generated", span=600 if tier == "quick" else 5000) for s in campaign.tree_shards(TREES[tier], 2 if tier == "quick" else 10)]
    return out


def integers(declared, span, rng):
    xs = set(range(-5, span))
    for k in (1, 2, 3, 4):
        xs.update([253 ** k - 1, 253 ** k, 253 ** k + 1])
    xs.update([255, 256, 2 ** 31 - 1, 2 ** 31, 2 ** 32, 2 ** 63 - 1, 2 ** 63, 2 ** 64, 2 ** 70, -1, -2 ** 31, -2 ** 63 - 1])
    for d in declared:
        xs.update([d - 1, d, d + 1])
    xs = list(xs)
    rng.shuffle(xs)
    return xs


def check_enum(E, declared, span, rng, report, count, where, others=()):
    """declared: {ordinal: python member name}.  report(mechanism, message, case)."""
    class _P:
        """repr() that cannot fail (a member whose state was damaged may not even print)."""
        def __init__(self, o):
            self.o = o

        def __repr__(self):
            try:
                return repr(self.o)
            except Exception as ex:
                return "<unprintable %s: %s>" % (type(self.o).__name__, type(ex).__name__)

    def snapshot():
        def val(m):
            try:
                v = m.value
                return (type(v).__name__, bool(v == int(m)))
            except Exception as ex:
                return ("raises", type(ex).__name__)
        return ([(m.name, int(m)) + val(m) for m in list(E)], list(E.__members__.keys()), len(E))
    before = snapshot()
    want_members = sorted((name, o) for o, name in declared.items())
    if sorted(b[:2] for b in before[0]) != want_members:
        report("declared-members-wrong", "%s: list(E) = %r, declared %r" % (where, [b[:2] for b in before[0]], want_members), {"enum": where})
    xs = integers(declared, span, rng)
    # a second pass re-constructs a sample in another order (same object every time for members)
    xs = xs + rng.sample(xs, min(len(xs), 200))
    for k, n in enumerate(xs):
        count("constructions-checked")
        try:
            # the signature is (value, names=None, *, module, qualname, type, start): the integer may also be
            # passed by keyword, and the defaults may be spelled out
            if k % 11 == 3:
                # an error handler (or a finally / __exit__ while an exception travels) reads enums too: the
                # construction happens while another, unrelated exception is being handled
                count("constructions-while-handling-another-exception")
                try:
                    raise KeyError("unrelated")
                except KeyError:
                    x = E(n)
            elif k % 11 == 7:
                count("constructions-while-handling-another-exception")
                try:
                    try:
                        raise OSError("unrelated")
                    finally:
                        x = E(n)
                except OSError:
                    pass
            else:
                x = E(n) if k % 7 < 5 else E(value=n) if k % 7 == 5 else E(n, names=None, module=None, qualname=None, type=None)
        except Exception as e:
            report("construction-raises", "%s(%d) raised %r" % (where, n, _P(e)), {"enum": where, "n": n})
            continue
        if n in declared:
            m = getattr(E, declared[n], None)
            if x is not m:
                report("declared-ordinal-not-member", "%s(%d) is %r, not the declared member %s" % (where, n, _P(x), declared[n]), {"enum": where, "n": n})
            continue
        try:
            ok = (isinstance(x, E) and x == n and hash(x) == hash(n) and int(x) == n and x.value == n and x.name == "Unrecognized(%d)" % n and n == x)
            again = E(x)
            ok2 = int(again) == n and isinstance(again, E)
        except Exception as e:
            report("unrecognized-instance-broken", "%s(%d): %r" % (where, n, _P(e)), {"enum": where, "n": n})
            continue
        if not ok:
            report("unrecognized-value-not-kept", "%s(%d) -> %r: isinstance=%r ==%r hash=%r int=%r value=%r name=%r" % (
                where, n, x, isinstance(x, E), x == n, hash(x) == hash(n), int(x), getattr(x, "value", None), getattr(x, "name", None)), {"enum": where, "n": n})
        if not ok2:
            report("unrecognized-value-not-kept", "%s(%s(%d)) lost the value" % (where, where, n), {"enum": where, "n": n})
    # integers that are not plain ints: bool, an int subclass, members / unrecognised values of another enum
    class _MyInt(int):
        pass
    class _WireInt:
        """An integer object that is not derived from int (what numpy-style scalars look like)."""

        def __init__(self, v):
            self.v = v

        def __index__(self):
            return self.v

        __int__ = __index__

        def __eq__(self, other):
            try:
                return self.v == int(other)
            except Exception:
                return NotImplemented

        def __hash__(self):
            return hash(self.v)

        def __repr__(self):
            return "WireInt(%d)" % self.v
    exotic = [True, False, _MyInt(7), _MyInt(-3), _MyInt(2 ** 40)] + [_WireInt(v) for v in (0, 1, 3, 200, 300, 64008, -1, 2 ** 40)]
    if others:
        for O in others[:2]:
            try:
                exotic += list(O)[:3] + [O(9), O(250), O(-1)]
            except Exception:
                pass
    for v in exotic:
        n = int(v)
        count("constructions-checked")
        count("non-plain-int-inputs")
        try:
            x = E(v)
        except Exception as e:
            report("construction-raises", "%s(%r) raised %r" % (where, _P(v), _P(e)), {"enum": where, "n": n, "input_type": type(v).__name__})
            continue
        if n in declared:
            if x is not getattr(E, declared[n], None):
                report("declared-ordinal-not-member", "%s(%r) is %r, not the declared member %s" % (where, _P(v), _P(x), declared[n]), {"enum": where, "n": n})
            continue
        try:
            ok = isinstance(x, E) and x == n and hash(x) == hash(n) and int(x) == n and x.value == n and x.name == "Unrecognized(%d)" % n
        except Exception as e:
            ok = False
        if not ok:
            report("unrecognized-value-not-kept", "%s(%r) [a %s equal to %d] -> %r named %r" % (where, _P(v), type(v).__name__, n, _P(x), getattr(x, "name", None)), {"enum": where, "n": n, "input_type": type(v).__name__})
    after = snapshot()
    count("membership-snapshots-compared")
    if after != before:
        report("members-changed-by-construction", "%s: members before %r, after %r" % (where, before, after), {"enum": where})
    # diagnostic: the value map (private) must not grow
    vm = getattr(E, "_value2member_map_", None)
    if vm is not None and len(vm) != len(declared):
        report("members-changed-by-construction", "%s: _value2member_map_ has %d entries for %d declared members" % (where, len(vm), len(declared)), {"enum": where})


def hand_enums(meta):
    from enum import IntEnum

    out = []
    for name, members in HAND.items():
        E = meta(name, (IntEnum,), _mkdict(meta, name, members))
        out.append((name, E, {o: n for n, o in members.items()}))
    # declarations a protocol library user may well write: members carrying extra data through a custom
    # __new__, methods / properties / class attributes on the enum, aliases
    from enum import Enum

    from enum import auto

    from abc import ABCMeta

    ns = {"IntEnum": IntEnum, "Enum": Enum, "meta": meta, "auto": auto, "ABCMeta": ABCMeta}
    exec(EXOTIC_SRC, ns)
    out.append(("WithLabel", ns["WithLabel"], {0: "STAND", 1: "CHAIR", 2: "FLOOR"}))
    out.append(("WithMethods", ns["WithMethods"], {1: "Low", 5: "High"}))
    out.append(("Classic", ns["Classic"], {1: "Red", 2: "Green"}))
    out.append(("Friendly", ns["Friendly"], {3: "Cat", 4: "Dog"}))
    out.append(("WithInit", ns["WithInit"], {0: "DOWN", 1: "LEFT", 2: "UP", 3: "RIGHT"}))
    out.append(("WithMissing", ns["WithMissing"], {1: "One", 2: "Two"}))
    out.append(("Auto", ns["Auto"], {1: "First", 2: "Second", 3: "Third"}))
    out.append(("OnIntSubclass", ns["OnIntSubclass"], {1: "Low", 2: "High"}))
    out.append(("OnIntEnumSubclass", ns["OnIntEnumSubclass"], {7: "Seven", 8: "Eight"}))
    out.append(("OnDerivedMeta", ns["OnDerivedMeta"], {1: "Ping", 2: "Pong"}))
    out.append(("OnAbcMeta", ns["OnAbcMeta"], {0: "Zero", 5: "Five"}))
    # declarations through the functional API of a member-less base (the branch of the metaclass call that
    # takes names): ordinals are start + position (start defaults to 1), or the values given
    out.append(("Func0", ns["Func0"], {0: "A", 1: "B", 2: "C"}))
    out.append(("Func1", ns["Func1"], {1: "X", 2: "Y", 3: "Z"}))
    out.append(("Func5", ns["Func5"], {5: "P", 6: "Q"}))
    out.append(("FuncDict", ns["FuncDict"], {0: "Lo", 9: "Hi"}))
    out.append(("FuncPairs", ns["FuncPairs"], {3: "M", 4: "N"}))
    return out


EXOTIC_SRC = '''
class WithLabel(IntEnum, metaclass=meta):
    def __new__(cls, value, label):
        obj = int.__new__(cls, value)
        obj._value_ = value
        obj.label = label
        return obj
    STAND = 0, "standing"
    CHAIR = 1, "on a chair"
    FLOOR = 2, "on the floor"


class WithMethods(IntEnum, metaclass=meta):
    Low = 1
    High = 5
    Top = 5          # alias of High

    @property
    def doubled(self):
        return int(self) * 2

    @classmethod
    def parse(cls, text):
        return cls(int(text))

    def describe(self):
        return "%s=%d" % (self.name, self)


class Classic(int, Enum, metaclass=meta):
    """The pre-IntEnum way of declaring an integer enum: formatting goes through Enum, not int."""
    Red = 1
    Green = 2


class Friendly(IntEnum, metaclass=meta):
    Cat = 3
    Dog = 4

    def __str__(self):
        return "%s (%d)" % (self.name, self.value)

    def __format__(self, spec):
        return format(str(self), spec)

    def __repr__(self):
        return "<Friendly %s>" % self.name


class WithInit(IntEnum, metaclass=meta):
    """Per-member data set up in __init__ from a table that only knows the declared ordinals."""
    DOWN = 0
    LEFT = 1
    UP = 2
    RIGHT = 3

    def __init__(self, value):
        self.dx, self.dy = {0: (0, 1), 1: (-1, 0), 2: (0, -1), 3: (1, 0)}[value]


class WithMissing(IntEnum, metaclass=meta):
    """A _missing_ hook that declines (returns None, what Enum's own does)."""
    One = 1
    Two = 2

    @classmethod
    def _missing_(cls, value):
        cls.asked = getattr(cls, "asked", 0) + 1
        return None


class Auto(IntEnum, metaclass=meta):
    First = auto()
    Second = auto()
    Third = auto()


class Ordinal(int):
    """An application's own integer type (say, one that prints itself in a special way)."""
    def shown(self):
        return "#%d" % self


class OnIntSubclass(Ordinal, Enum, metaclass=meta):
    Low = 1
    High = 2


class _Base(IntEnum, metaclass=meta):
    """A member-less base that adds behaviour; the enums proper derive from it."""
    def describe(self):
        return "%s/%d" % (self.name, self)


class OnIntEnumSubclass(_Base):
    Seven = 7
    Eight = 8


class DerivedMeta(meta):
    """A project's own metaclass on top of the library's (adds a lookup by label, say)."""
    def labels(cls):
        return [m.name.lower() for m in cls]


class OnDerivedMeta(IntEnum, metaclass=DerivedMeta):
    Ping = 1
    Pong = 2


class AbcProtocolMeta(ABCMeta, meta):
    """The usual way of making an enum implement an abstract interface."""


class OnAbcMeta(IntEnum, metaclass=AbcProtocolMeta):
    Zero = 0
    Five = 5


class FuncBase(IntEnum, metaclass=meta):
    pass


Func0 = FuncBase("Func0", ["A", "B", "C"], start=0)
Func1 = FuncBase("Func1", "X Y Z")
Func5 = FuncBase("Func5", ["P", "Q"], start=5, module="somewhere", qualname="Outer.Func5")
FuncDict = FuncBase("FuncDict", {"Lo": 0, "Hi": 9})
FuncPairs = FuncBase("FuncPairs", [("M", 3), ("N", 4)], type=None)
'''


def _mkdict(meta, name, members):
    from enum import IntEnum

    d = meta.__prepare__(name, (IntEnum,))
    for k, v in members.items():
        d[k] = v
    return d


def run(shard, rec, tier, seed):
    kind = shard["kind"]
    rng = random.Random("C14-%d-%r" % (seed, shard.get("trees", kind)))

    def count(name, n=1):
        rec.count(name, n)

    if kind == "hand-warnings-as-errors":
        # an application (or its test-suite) that turns warnings into errors: constructing an enum from an integer is
        # an everyday operation of the deserializers and must not warn either
        import warnings

        with warnings.catch_warnings():
            warnings.simplefilter("error")
            run(dict(shard, kind="hand"), rec, tier, seed)
        rec.count("shards-run-with-warnings-as-errors")
        return
    if kind == "hand":
        from vf import stage

        ns = stage.shim()
        hs = hand_enums(ns.enum_meta.ProtocolEnumMeta)
        for name, E, declared in hs:
            check_enum(E, declared, shard["span"], rng, lambda m, msg, c: rec.violation(m, msg, c), count, "hand:" + name, [o[1] for o in hs if o[1] is not E])
            rec.case(None, n=shard["span"])
            rec.seen("enums", "hand:" + name + " (py%d.%d)" % sys.version_info[:2])
        rec.sample({"enum": "hand:Sparse", "declared": HAND["Sparse"], "example": "Sparse(3) -> Unrecognized(3)"})
    elif kind == "py311":
        exe = "/opt/veriftools/pyvenv/bin/python"
        if not os.path.exists(exe):
            rec.count("second-interpreter-unavailable")
            return
        env = dict(os.environ, PYTHONPATH=ROOT, PYTHONDONTWRITEBYTECODE="1")
        r = subprocess.run([exe, "-B", "-m", "vf.props.c14", str(shard["span"]), str(seed)], capture_output=True, text=True, cwd=ROOT, env=env, timeout=600)
        if r.returncode != 0:
            rec.inconclusive.append("3.11 sub-run failed: " + r.stderr[-400:])
            return
        res = json.loads(r.stdout.strip().splitlines()[-1])
        for k, v in res["counters"].items():
            rec.count(k + "-py311", v)
        rec.count("constructions-checked", res["counters"].get("constructions-checked", 0))
        for v in res["violations"]:
            rec.violation(v[0] + "-py311", v[1], v[2])
        rec.case(None, n=res["counters"].get("constructions-checked", 0))
        rec.seen("enums", "hand:* (py%s)" % res["version"])
    else:
        from vf import campaign

        for ti in shard["trees"]:
            spec, feats = campaign.make_spec(seed, ti)
            if campaign.certified(spec):
                continue
            with campaign.Tree(spec) as t:
                if t.error is not None:
                    rec.count("base-spec-rejected-by-generator")
                    continue
                all_enums = [t.bridge.top_class(n2) for n2, _d, _p in spec.enums()]
                import contextlib
                import warnings

                strict = contextlib.ExitStack()
                if ti % 2:
                    strict.enter_context(warnings.catch_warnings())
                    warnings.simplefilter("error")
                    rec.count("trees-run-with-warnings-as-errors")
                try:
                    for name, decl, path in spec.enums():
                        E = t.bridge.top_class(name)
                        declared = {v[1]: ("None_" if v[0] == "None" else v[0]) for v in decl.values}

                        def report(m, msg, c, ti=ti, t=t):
                            c = dict(c, tree=ti, xml=t.files)
                            rec.violation(m, "tree %d: %s" % (ti, msg), c)
                        check_enum(E, declared, shard["span"], rng, report, count, name, [o for o in all_enums if o is not E])
                        rec.case(None, n=shard["span"])
                        rec.count("generated-enums")
                        rec.seen("underlying-types", decl.type)
                    # message level: "values from newer protocol versions survive a read-then-write unchanged" - every
                    # message with an enum field is read with an undeclared ordinal in that field and written again
                    survive(rec, t, ti, spec, rng)
                finally:
                    strict.close()
        rec.sample({"generated_enums_from_trees": shard["trees"]})


def survive(rec, t, ti, spec, rng):
    from vf.gen.valuegen import ValueGen
    from vf.mon.lockstep import FuelExhausted, LockstepReader
    from vf.ref import numbers
    from vf.ref.interp import Invalid, Unsupported
    from vf.ref.reader import RefReader
    from vf.ref.writer import RefWriter

    it, br = t.interp, t.bridge
    for name, decl, path in spec.classes():
        fields = []
        for pname, ins in br.params((name,)):
            if ins.kind == "field" and not ins.optional and ins.value is None and it.resolve(ins.type).kind == "enum":
                fields.append((pname, ins))
        if not fields:
            continue
        vg = ValueGen(it, rng, "nd")
        for pname, ins in fields[:3]:
            ty = it.resolve(ins.type)
            declared = {v[1] for v in ty.decl.values}
            lim = numbers.LIMIT[ty.wire]
            cands = [x for x in (lim - 1, 200, 17, 9, 3, 2, 1, 0) if x not in declared and 0 <= x < lim]
            # undeclared ordinals that a <case value="N"> of a switch on this field names come first
            def flat0(b):
                for i in b:
                    if i.kind == "chunked":
                        yield from flat0(i.body)
                    else:
                        yield i
            for sw0 in flat0(it.body_of((name,))[0]):
                if sw0.kind == "switch" and sw0.field == pname:
                    for c0 in sw0.cases:
                        if not c0.default and str(c0.value).isdigit() and int(c0.value) not in declared and int(c0.value) < lim:
                            cands.insert(0, int(c0.value))
            for n in cands[:2]:
                _survive_one(rec, t, ti, name, pname, n, vg, it, br)
    return


def _survive_one(rec, t, ti, name, pname, n, vg, it, br):
    from vf.mon.lockstep import FuelExhausted, LockstepReader
    from vf.ref.interp import Invalid, Unsupported
    from vf.ref.reader import RefReader
    from vf.ref.writer import RefWriter

    for _once in (0,):
        for _x in (0,):
            obj = vg.message(name)
            obj.fields[pname] = n
            if pname + "_data" in obj.fields:
                try:
                    def flat(b):
                        for i in b:
                            if i.kind == "chunked":
                                yield from flat(i.body)
                            else:
                                yield i
                    sw = next(i for i in flat(it.body_of((name,))[0]) if i.kind == "switch" and i.field == pname)
                    case = it.select_case(sw, n, (name,))
                    if case is None or not case.body:
                        obj.fields[pname + "_data"] = None
                    else:
                        obj.fields[pname + "_data"] = vg.obj((name, it.case_class_name(pname, case)), False)
                except Exception:
                    continue
            w = RefWriter()
            try:
                it.serialize(obj, w)
            except (Invalid, Unsupported):
                continue
            data = bytes(w.data)
            C = br.real_class((name,))
            case = {"tree": ti, "class": name, "field": pname, "ordinal": n, "bytes": data, "xml": t.files}
            # the message need not be wire-unambiguous: what "unchanged" means is decided by the reference
            # (read with the reference reader, written with the reference writer)
            try:
                mback = it.deserialize((name,), RefReader(data), [20000])
                w3 = RefWriter()
                it.serialize(mback, w3)
                want, wn = bytes(w3.data), mback.fields.get(pname)
            except Exception:
                continue
            if wn != n or want != data:
                rec.count("messages-not-wire-unambiguous")
                continue
            rec.count("messages-with-an-undeclared-ordinal")
            try:
                back = C.deserialize(LockstepReader(t.EoReader(data), RefReader(data), fuel=6 * len(data) + 20000))
                got = getattr(back, pname)
                w2 = t.EoWriter()
                C.serialize(w2, back)
                again = bytes(w2.to_bytearray())
            except FuelExhausted:
                continue
            except Exception as ex:
                rec.violation("undeclared-ordinal-does-not-survive", "tree %d %s.%s = %d: reading %s and writing it again raised %r" % (ti, name, pname, n, data.hex(), ex), case)
                continue
            if int(got) != n or getattr(got, "name", None) != "Unrecognized(%d)" % n or again != data:
                rec.violation("undeclared-ordinal-does-not-survive", "tree %d %s.%s: read %s, field came back as %r, written again as %s" % (ti, name, pname, data.hex(), got, again.hex()), case)


if __name__ == "__main__":
    # second-interpreter entry point: hand-written enums only, results as one JSON line
    span, seed = int(sys.argv[1]), int(sys.argv[2])
    from vf import stage

    ns = stage.shim()
    counters, violations = {}, []

    def count(name, n=1):
        counters[name] = counters.get(name, 0) + n

    rng = random.Random("C14-311-%d" % seed)
    hs = hand_enums(ns.enum_meta.ProtocolEnumMeta)
    for name, E, declared in hs:
        check_enum(E, declared, span, rng, lambda m, msg, c: violations.append((m, msg, c)), count, "hand:" + name, [o[1] for o in hs if o[1] is not E])
    print(json.dumps({"counters": counters, "violations": violations[:20], "version": "%d.%d" % sys.version_info[:2]}))
