"""C05 - EoReader follows the chunked-reading model and never leaves its data.

Lock-step monitor (vf/mon/lockstep.py): every public reader operation is applied to the real EoReader
and to the reference model (vf/ref/reader.py); returned value (and type), exception class, position,
remaining and chunked_reading_mode are compared after every step, together with the range invariants
0 <= position <= len(data), remaining >= 0.  A guarded buffer (vf/mon/guard.py) replaces the reader's
private byte view and reports negative indices.  icontract class invariants are attached to the real
class in a separate shard.  slice() children are explored recursively (slices of slices) and the
parent is re-checked after each slice."""
import copy
import itertools
import random

from vf import stage
from vf.mon import guard as guardmod
from vf.mon.lockstep import Divergence, LockstepReader
from vf.ref.reader import RefReader

ID = "C05"
LEVEL = "exploration"
RULE = ("cases are (data, operation history) pairs; all data over the alphabet {00,01,FE,FF} up to the length bound x all "
        "operation sequences up to the depth bound over a fixed op alphabet (typed reads, fixed/padded/encoded strings, both "
        "mode assignments, next_chunk, five slice forms that continue on the child) are enumerated by DFS with reader copies "
        "(each path distinct), then seeded-random scripts on data up to 64 bytes with varying 0xFF density; non-trivial = "
        "history has at least one read and data is non-empty; distinct = distinct (data, op sequence)")
ASSUMPTIONS = [
    "documented chunked-reading model = vf/ref/reader.py: the break is the first 0xFF at or after the start of the current chunk (the semantics shared by all eolib ports)",
    "length arguments are non-negative (negative ones are only used to check ValueError on slice and fixed strings)",
    "copy.copy(reader) yields an independent reader over the same bytes (DFS only; random scripts do not rely on it)",
]
FLOORS = {"lockstep-ops": 1000}
SHARD_TIMEOUT = {"quick": 900, "thorough": 5400}

OPS = [
    ("get_byte",), ("get_char",), ("get_short",), ("get_three",), ("get_int",),
    ("get_bytes", 0), ("get_bytes", 1), ("get_bytes", 2), ("get_bytes", 9),
    ("get_string",), ("get_encoded_string",),
    ("get_fixed_string", 1, False), ("get_fixed_string", 2, True), ("get_fixed_string", 0, False),
    ("get_fixed_encoded_string", 2, False), ("get_fixed_encoded_string", 3, True),
    ("mode", True), ("mode", False), ("next_chunk",),
    ("slice", None, None), ("slice", 1, None), ("slice", 0, 2), ("slice", 2, 9), ("slice", 9, 1),
]
ALPHA = [0x00, 0x01, 0xFE, 0xFF]



def shards(tier, seed):
    from vf import engine

    return engine.with_interpreter_options(_plain_shards(tier, seed), key="kind")


def _plain_shards(tier, seed):
    out = []
    if tier == "quick":
        datas = [bytes(t) for L in range(0, 4) for t in itertools.product(ALPHA, repeat=L)]
        for p in range(16):
            out.append({"kind": "dfs", "maxlen": 3, "depth": 3, "part": p, "parts": 16})
        out += [{"kind": "random", "n": 1500, "part": p} for p in range(14)]
        out.append({"kind": "contracts", "n": 1500})
        out.append({"kind": "negative"})
        out += [{"kind": "layout", "lo": lo, "hi": lo + 1100} for lo in range(0, 4400, 1100)]
    else:
        for p in range(96):
            out.append({"kind": "dfs", "maxlen": 4, "depth": 4, "part": p, "parts": 96})
        out += [{"kind": "dfs5", "part": p, "parts": 16} for p in range(16)]
        out += [{"kind": "random", "n": 16000, "part": p} for p in range(32)]
        out.append({"kind": "contracts", "n": 20000})
        out.append({"kind": "negative"})
        out += [{"kind": "layout", "lo": lo, "hi": lo + 2200} for lo in range(0, 70400, 2200)]
    return out


def clone_model(m):
    c = RefReader(m.data)
    c.pos, c.chunked, c.chunk_start = m.pos, m.chunked, m.chunk_start
    return c


def abstract(m):
    b, n = m.brk, len(m.data)
    where = "end" if m.pos == n else "before" if m.pos < b else "at-break" if m.pos == b else "past-break"
    return ("chunked" if m.chunked else "plain") + ":" + where


def apply(ls, op):
    """Apply one op through the lock-step proxy; returns the proxy to continue with (child for slice)."""
    name = op[0]
    if name == "mode":
        ls.chunked_reading_mode = op[1]
        return ls
    if name == "slice":
        try:
            return ls.slice(op[1], op[2])
        except ValueError:
            return ls
    try:
        getattr(ls, name)(*op[1:])
    except (ValueError, RuntimeError):
        pass
    return ls


def run(shard, rec, tier, seed):
    ns = stage.shim()
    R = ns.EoReader
    kind = shard["kind"]
    if kind in ("dfs", "dfs5"):
        if kind == "dfs":
            datas = [bytes(t) for L in range(0, shard["maxlen"] + 1) for t in itertools.product(ALPHA, repeat=L)]
            depth = shard["depth"]
            ops = OPS
        else:
            # deeper histories on a reduced op alphabet and 5-6 byte data with two breaks
            datas = [bytes(t) for t in itertools.product([0x01, 0xFF], repeat=5)] + [b"\x01\xff\xfe\xff\x01\x02", b"\xff\xff\x01\xff\xff\x01"]
            depth = 6
            ops = [("get_byte",), ("get_short",), ("get_string",), ("get_fixed_string", 2, True), ("mode", True), ("mode", False), ("next_chunk",), ("slice", 1, None), ("get_bytes", 2)]
        datas = [d for i, d in enumerate(datas) if i % shard["parts"] == shard["part"]]
        nodes = [0]
        trans = set()

        def dfs(real, model, d, hist, data):
            nodes[0] += 1
            if d == 0:
                return
            for op in ops:
                r2, m2 = copy.copy(real), clone_model(model)
                ls = LockstepReader(r2, m2, trace=list(hist))
                trans.add(abstract(m2) + " --" + op[0] + "-->")
                try:
                    nxt = apply(ls, op)
                except Divergence as dv:
                    rec.violation(classify(dv.what), "data=%s history=%r: %s" % (data.hex(), hist + [op], dv.what), {"data": data, "history": hist + [op]})
                    continue
                except Exception as ex:
                    rec.violation("raises", "data=%s history=%r raised %r" % (data.hex(), hist + [op], ex), {"data": data, "history": hist + [op]})
                    continue
                dfs(nxt._r, nxt._m, d - 1, hist + [op], data)

        for data in datas:
            real, model = R(data), RefReader(data)
            g = guardmod.install(real, data)
            before = nodes[0]
            dfs(real, model, depth, [], data)
            if g is not None:
                rec.count("guarded-buffer-accesses", g.accesses)
                if g.bad:
                    rec.violation("guarded-buffer", "data=%s: %s" % (data.hex(), g.bad[0]), {"data": data})
            rec.case(None, n=nodes[0] - before, nontrivial=len(data) > 0)
            if not data:
                rec.evals += 0
        rec.count("lockstep-ops", nodes[0])
        for t in trans:
            rec.seen("transitions", t)
        rec.seen("dfs", "%d data strings (part %d/%d), depth %d, %d ops" % (len(datas), shard["part"], shard["parts"], depth, len(ops)))
        if datas:
            rec.sample({"data": datas[-1], "dfs_depth": depth, "ops": [o[0] for o in ops][:6]})
    elif kind == "random":
        rng = random.Random("C05-%d-%d" % (seed, shard["part"]))
        for _ in range(shard["n"]):
            data, script = random_case(rng)
            run_script(R, rec, data, script, use_guard=rng.random() < 0.7)
            rec.case((data, script), nontrivial=len(data) > 0 and len(script) > 0)
        rec.sample({"data": data, "script": script[:10]})
    elif kind == "contracts":
        run_contracts(ns, rec, shard, seed)
    elif kind == "layout":
        # break position sweep: a chunk of every length lo..hi (non-break filler), its break byte, then a
        # short tail chunk - behind nothing, behind one chunk and behind two; read through four plans.
        # Whatever a reader uses to find the next break (blocks, caches, windows) meets every offset.
        rng = random.Random("C05-layout-%d-%d" % (seed, shard["lo"]))
        leads = [b"", b"\x01\xff", b"\x01\x02\x03\xff\x05\xff"]
        plans = [
            [("get_bytes", 10 ** 9), ("next_chunk",), ("get_byte",), ("get_bytes", 10 ** 9), ("next_chunk",), ("get_byte",)],
            [("get_short",), ("next_chunk",), ("get_short",), ("next_chunk",), ("get_byte",)],
            [("get_string",), ("get_byte",), ("next_chunk",), ("get_string",)],
            [("get_fixed_string", 3, False), ("mode", False), ("get_byte",), ("mode", True), ("get_bytes", 10 ** 9), ("next_chunk",), ("get_int",)],
        ]
        for k in range(shard["lo"], shard["hi"]):
            lead = leads[k % 3]
            filler = bytes([rng.choice([0x01, 0x41, 0xFE, 0x00, 0x7E])]) * k
            data = lead + filler + b"\xff" + b"\x07\x08\x09" + (b"\xff\x0a" if k % 2 else b"")
            script = [("mode", True)] + [("next_chunk",)] * lead.count(b"\xff") + plans[(k // 3) % 4]
            run_script(R, rec, data, script, use_guard=(k % 5 == 0))
            rec.case(("layout", k, len(lead), (k // 3) % 4))
            rec.count("break-offsets-swept")
        rec.seen("layout-ranges", "%d..%d" % (shard["lo"], shard["hi"] - 1))
    elif kind == "negative":
        # the two documented ValueErrors, and the RuntimeError of next_chunk outside chunked mode
        for data in (b"", b"\x01\x02\x03", b"\xff\x01"):
            for op in (("slice", -1, None), ("slice", 0, -1), ("slice", -3, -3), ("get_fixed_string", -1, False), ("get_fixed_encoded_string", -2, True), ("next_chunk",)):
                run_script(R, rec, data, [op, ("get_byte",)], use_guard=False)
                rec.case((data, op), nontrivial=False)
        rec.count("error-contract-cases", 18)


def classify(what):
    w = what.lower()
    if "guarded buffer" in w:
        return "guarded-buffer"
    if "outside [0" in w or "negative" in w and "remaining" in w:
        return "position-or-remaining-out-of-range"
    if w.startswith("slice") or "slice" in w.split(":")[0]:
        return "slice-diverges"
    if "next_chunk" in w.split(":")[0]:
        return "next_chunk-diverges"
    if "position,remaining,chunked" in w:
        return "state-diverges"
    return "read-diverges"


def random_case(rng):
    L = rng.choice([0, 1, 2, 3, 5, 8, 13, 21, 34, 64]) if rng.random() < 0.99 else rng.choice([255, 256, 257, 65535, 65536, 65537, 70001])
    dens = rng.choice([0.0, 0.05, 0.2, 0.5, 0.9])
    data = bytes(0xFF if rng.random() < dens else rng.choice([rng.randrange(256), 0, 1, 0xFE, 0x7E, 0x41]) for _ in range(L))
    script = []
    for _ in range(rng.randrange(1, 40)):
        r = rng.random()
        if r < 0.45:
            script.append(rng.choice(OPS[:5] + [("get_string",), ("get_encoded_string",)]))
        elif r < 0.55:
            script.append(("get_bytes", rng.choice([0, 1, 2, 3, 7, 100, 255, 256, 65536, 10 ** 9])))
        elif r < 0.7:
            script.append((rng.choice(["get_fixed_string", "get_fixed_encoded_string"]), rng.choice([0, 1, 2, 3, 5, 12, 70, 254, 256, 65537]), rng.random() < 0.5))
        elif r < 0.82:
            script.append(("mode", rng.random() < 0.6))
        elif r < 0.92:
            script.append(("next_chunk",))
        else:
            script.append(("slice", rng.choice([None, 0, 1, 2, 5, 30, 64, 65, 1000]), rng.choice([None, None, 0, 1, 3, 10, 64, 1000])))
    return data, script


def run_script(R, rec, data, script, use_guard=True):
    # a decoy reader over other data is driven in between: state shared between instances
    # (class-level caches, module globals) would let it disturb the reader under observation
    decoy = R(bytes(reversed(data)) + b"\xff\x01\xff")
    decoy_ops = [("get_byte",), ("get_short",), ("next_chunk",), ("get_string",), ("get_fixed_string", 2, True)]
    form = (len(data) + len(script)) % 4  # the constructor accepts any bytes-like object
    arg = data if form < 2 else bytearray(data) if form == 2 else memoryview(bytes(data))
    real, model = R(arg), RefReader(data)
    g = guardmod.install(real, data) if use_guard else None
    ls = LockstepReader(real, model, guard=g)
    ls.scribble = True
    root = ls
    done = []
    try:
        ls.check_state("init")
        for op in script:
            rec.seen("transitions", abstract(ls._m) + " --" + op[0] + "-->")
            done.append(op)
            dop = decoy_ops[len(done) % len(decoy_ops)]
            try:
                if len(done) % 3 == 0:
                    decoy.chunked_reading_mode = not decoy.chunked_reading_mode
                getattr(decoy, dop[0])(*dop[1:])
            except (RuntimeError, ValueError):
                pass
            nxt = apply(ls, op)
            if nxt is not ls:
                root.check_state("parent-after-slice")
                # parent and child are independent: half of the time keep reading the parent
                if len(done) % 2:
                    ls = nxt
                    rec.count("slice-descents")
            rec.count("lockstep-ops")
    except Divergence as dv:
        rec.violation(classify(dv.what), "data=%s history=%r: %s" % (bytes(data).hex(), done, dv.what), {"data": data, "history": done})
    except Exception as ex:
        rec.violation("raises", "data=%s history=%r raised %r" % (bytes(data).hex(), done, ex), {"data": data, "history": done})
    if g is not None:
        rec.count("guarded-buffer-accesses", g.accesses)


class InvariantBroken(Exception):
    pass


def run_contracts(ns, rec, shard, seed):
    from vf import setup as vsetup

    if not vsetup.add_deps_to_path():
        rec.count("icontract_unavailable")
        return
    import icontract

    evals = [0]

    def within_data(self):
        evals[0] += 1
        d = getattr(self, "_data", None)  # diagnostic: absent private attribute disables the length part only
        pos, rem = self.position, self.remaining
        return rem >= 0 and pos >= 0 and (d is None or pos <= len(d)) and (d is None or rem <= len(d) - min(pos, len(d)))

    icontract.invariant(within_data, error=InvariantBroken)(ns.EoReader)
    rng = random.Random("C05-contracts-%d" % seed)
    for _ in range(shard["n"]):
        data, script = random_case(rng)
        try:
            r = ns.EoReader(data)
            for op in script:
                try:
                    if op[0] == "mode":
                        r.chunked_reading_mode = op[1]
                    elif op[0] == "slice":
                        c = r.slice(op[1], op[2])
                        c.get_short()
                    else:
                        getattr(r, op[0])(*op[1:])
                except (ValueError, RuntimeError):
                    pass
        except InvariantBroken as ex:
            rec.violation("icontract-invariant", "data=%s script=%r: %s" % (data.hex(), script, str(ex)[:300]), {"data": data, "history": script})
        rec.case(("contract", data, script), nontrivial=False)
    rec.count("icontract-invariant-evaluations", evals[0])
