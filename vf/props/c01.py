"""C01 - generated serializers round-trip every well-formed message.

For wire-unambiguous classes (vf/gen/wu.py) and in-domain values (ValueGen 'wu' + reference round-trip
filter) the real generated serialize (fresh real EoWriter behind a lock-step writer proxy) followed by
the real generated deserialize (fresh real EoReader behind a lock-step reader proxy) must give back an
object equal field by field (AST-driven deep comparison), consume exactly the bytes written
(remaining == 0, position == len) and report byte_size == that count (nested byte_size compared with
the reference's)."""
import random

from vf import campaign
from vf.gen import wu as wumod
from vf.gen.valuegen import ValueGen
from vf.mon.lockstep import Divergence, FuelExhausted, LockstepReader, TraceWriter
from vf.ref.interp import Invalid, OracleBudget, Unsupported
from vf.ref.reader import RefReader
from vf.ref.writer import RefWriter

ID = "C01"
LEVEL = "exploration"
RULE = ("cases are (spec tree, wire-unambiguous class, in-domain value): corpus + SpecGen trees; classes filtered by the static "
        "WU rules; values from ValueGen's round-trip dialect, kept only if the reference interpreter itself round-trips them "
        "(domain filter; discards are counted); non-trivial = serialization is non-empty and the value has at least one "
        "field; distinct = distinct (tree, class, value)")
ASSUMPTIONS = [
    "domain = C01's quantifier made precise in vf/gen/wu.py + the reference round-trip filter (a filter can only remove cases)",
    "equality of generated objects is the AST-driven field-by-field comparison of vf/mon/realobj.py (generated classes define no __eq__)",
]
FLOORS = {"roundtrips-checked": 300}
SHARD_TIMEOUT = {"quick": 900, "thorough": 3600}
TREES = {"quick": 48, "thorough": 1600}
VALUES = {"quick": 20, "thorough": 40}



def shards(tier, seed):
    from vf import engine

    return engine.with_interpreter_options(_plain_shards(tier, seed))


def _plain_shards(tier, seed):
    return campaign.tree_shards(TREES[tier], 3 if tier == "quick" else 20, capture=True)


def run(shard, rec, tier, seed):
    for ti in shard["trees"]:
        spec, feats = campaign.make_spec(seed, ti, wu_bias=True)
        if campaign.certified(spec):
            rec.inconclusive.append("SpecGen tree %d fails its grammar certificate" % ti)
            continue
        with campaign.Tree(spec) as t:
            if t.error is not None:
                rec.count("base-spec-rejected-by-generator")
                continue
            rec.count("trees-staged")
            if t.generator_reused:
                rec.count("trees-generated-after-a-failed-run-on-a-broken-revision" if t.prior_failed else "trees-generated-by-an-instance-that-read-an-earlier-revision")
            campaign.record_features(rec, feats)
            run_tree(campaign.CaptureRec(rec, ti), tier, seed, ti, spec, t)


def run_tree(rec, tier, seed, ti, spec, t):
    rng = random.Random("C01-%d-%d" % (seed, ti))
    it = t.interp
    w = wumod.WU(it)
    for name, decl, path in spec.classes():
        ok, why = wumod.classify(it, name, w)
        if not ok:
            rec.count("classes-outside-wu")
            rec.seen("non-wu-reasons", (why or "")[:50])
            continue
        rec.count("classes-wu")
        vg = ValueGen(it, rng, "wu")
        for j in range(VALUES[tier] * (4 if ti < 0 else 1)):  # the hand-written tree gets four times the values
            obj = vg.message(name)
            one(rec, t, ti, name, obj)


def in_domain(it, obj, rec):
    """Reference round trip: -> reference bytes, or None when the pair is outside the domain."""
    mw = RefWriter()
    try:
        it.serialize(obj, mw)
    except (Invalid, Unsupported) as e:
        rec.count("discard:reference-cannot-serialize")
        return None
    data = bytes(mw.data)
    mr = RefReader(data)
    try:
        back = it.deserialize(obj.cls, mr, [20000])
    except (ValueError, Unsupported, OracleBudget):
        rec.count("discard:reference-cannot-deserialize")
        return None
    if back != obj or mr.remaining != 0 or mr.pos != len(data):
        rec.count("discard:reference-roundtrip-differs")
        return None
    return data, back


def one(rec, t, ti, name, obj):
    it, br = t.interp, t.bridge
    rec.count("values-generated")
    dom = in_domain(it, obj, rec)
    if dom is None:
        return
    ref_bytes, ref_back = dom
    case = {"tree": ti, "class": name, "value": obj.to_json()}
    rec.case((ti, name, repr(obj)), nontrivial=len(ref_bytes) > 0 and bool(obj.fields))
    C = br.real_class(obj.cls)
    try:
        real = br.build(obj, array_form=rec.evals % 3)
    except Exception as e:
        case["xml"] = t.files
        rec.violation("ctor-raises:" + type(e).__name__, "tree %d: constructor of %s raised %r for in-domain value %r" % (ti, name, e, obj), case)
        return
    w = t.EoWriter()
    tw = TraceWriter(w, RefWriter())
    try:
        C.serialize(tw, real)
    except Divergence as dv:
        case["xml"] = t.files
        rec.violation("writer-divergence", "tree %d %s: %s" % (ti, name, dv.what), case)
        return
    except Exception as e:
        case["xml"] = t.files
        rec.violation("serialize-raises:" + type(e).__name__, "tree %d %s.serialize raised %r for in-domain value %r" % (ti, name, e, obj), case)
        return
    data = bytes(w.to_bytearray())
    if data != ref_bytes:
        rec.count("real-bytes-differ-from-reference")
    # every fourth message is embedded: it sits behind bytes the caller has already consumed (a packet body
    # behind its header, one record of a file behind another); positions are then not offsets from zero
    prefix = b"\x03\x04\x05\xfe\x01" if rec.evals % 4 == 2 else b""
    reader = t.EoReader(prefix + data)
    ls = LockstepReader(reader, RefReader(prefix + data), fuel=min(50 * len(data) + 2000, 6 * len(data) + 200000))
    if prefix:
        ls.get_bytes(len(prefix))
        rec.count("roundtrips-behind-a-consumed-prefix")
    try:
        back = C.deserialize(ls)
    except FuelExhausted:
        case["xml"], case["bytes"] = t.files, data
        rec.violation("deserialize-does-not-terminate", "tree %d %s: deserialize of its own serialization %s ran out of fuel" % (ti, name, data.hex()), case)
        return
    except Divergence as dv:
        case["xml"], case["bytes"] = t.files, data
        rec.violation("reader-divergence", "tree %d %s: %s" % (ti, name, dv.what), case)
        return
    except Exception as e:
        case["xml"], case["bytes"] = t.files, data
        rec.violation("deserialize-raises:" + type(e).__name__, "tree %d %s.deserialize(%s) raised %r" % (ti, name, data.hex(), e), case)
        return
    rec.count("roundtrips-checked")
    diffs = br.compare(obj, back)
    if diffs:
        case["xml"], case["bytes"] = t.files, data
        rec.violation("roundtrip-differs", "tree %d %s: %s  (bytes %s, value %r)" % (ti, name, "; ".join(diffs[:4]), data.hex(), obj), case)
        return
    if reader.remaining != 0 or reader.position != len(prefix) + len(data):
        case["xml"], case["bytes"] = t.files, data
        rec.violation("not-consumed-exactly", "tree %d %s: after deserialize remaining=%d position=%d of %d bytes" % (ti, name, reader.remaining, reader.position - len(prefix), len(data)), case)
        return
    if getattr(back, "byte_size", None) != len(data):
        case["xml"], case["bytes"] = t.files, data
        rec.violation("byte-size", "tree %d %s: byte_size %r, %d bytes were written" % (ti, name, getattr(back, "byte_size", None), len(data)), case)
        return
    if data == ref_bytes:
        d2 = br.compare(ref_back, back, byte_size=True)
        rec.count("nested-byte-sizes-compared")
        if d2:
            case["xml"], case["bytes"] = t.files, data
            rec.violation("byte-size", "tree %d %s: %s" % (ti, name, "; ".join(d2[:3])), case)
    if rec.evals % 400 == 1:
        rec.sample({"tree": ti, "class": name, "value": obj.to_json(), "bytes": data})


def finalize(agg, tier, seed):
    gen = agg.counters.get("values-generated", 0)
    disc = sum(v for k, v in agg.counters.items() if k.startswith("discard:"))
    agg.extra["domain_filter"] = {"values_generated": gen, "discarded": disc, "discard_rate": round(disc / gen, 4) if gen else None}
    if gen and disc / gen > 0.5:
        agg.inconclusive.append("domain filter discarded %d of %d generated values (> 50%%): the constructive WU rules and the reference disagree too often" % (disc, gen))
