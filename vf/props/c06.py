"""C06 - chunk framing isolates chunks from over- and under-reads.

Writer event log vs reader event log: the writer (sanitisation on) records, per field write, the bytes
appended and, per chunk, the offset where it starts; the reader (chunked mode) follows a per-chunk plan
(any prefix of the fields, then surplus reads if the chunk was read completely, or arbitrary 'garbage'
reads if it was not) and calls next_chunk.  Oracles: no field write contains 0xFF; after next_chunk the
reader's position equals the recorded start of the next chunk; every prefix read equals the image of
the written value; every surplus read is 0 / empty; no read returns bytes beyond its chunk's break."""
import random

from vf import stage
from vf.gen import values as V
from vf.ref import cp1252

ID = "C06"
LEVEL = "exploration"
RULE = ("cases are (list of 1-8 chunks of 0-6 typed fields, per-chunk read plan) pairs, seeded-random: integers of every EO "
        "width at boundaries, arbitrary Unicode strings incl. y-diaeresis (fixed, encoded, one unsized string last in a chunk); "
        "plans = prefix length, 0-4 surplus reads of any type or 0-3 mistyped reads, then next_chunk; non-trivial = at least "
        "two chunks and a plan that under- or over-reads some chunk; distinct = distinct (chunks, plans)")
ASSUMPTIONS = [
    "fields are EO integers and strings (raw add_byte(0xFF) is the break itself, not a field); padded strings are excluded because their padding is 0xFF by definition",
    "'~' is excluded from encoded strings (the format cannot carry it)",
]
FLOORS = {"next-chunk-offsets-checked": 1000, "surplus-reads-checked": 100, "field-writes-scanned-for-FF": 1000}

INT_KINDS = ["char", "short", "three", "int"]
SURPLUS = [("get_byte",), ("get_char",), ("get_short",), ("get_three",), ("get_int",), ("get_string",), ("get_encoded_string",),
           ("get_fixed_string", 3), ("get_fixed_encoded_string", 2), ("get_bytes", 4), ("get_fixed_string", 2, True)]



def shards(tier, seed):
    from vf import engine

    return engine.with_interpreter_options(_plain_shards(tier, seed))


def _plain_shards(tier, seed):
    if tier == "quick":
        return [{"n": 1500, "part": p} for p in range(16)] + [{"sweep": (lo, lo + 220), "part": 100 + lo} for lo in range(0, 2200, 220)]
    return [{"n": 15625, "part": p} for p in range(64)] + [{"sweep": (lo, lo + 1100), "part": 100 + lo} for lo in range(0, 13200, 1100)] + [{"sweep": (c - 3, c + 4), "part": 100 + c} for c in (16384, 32768, 65536)]


def gen_case(rng):
    chunks = []
    for _ in range(rng.randrange(1, 9)):
        fields = []
        nf = rng.randrange(0, 7)
        for i in range(nf):
            r = rng.random()
            if r < 0.5:
                k = rng.choice(INT_KINDS)
                fields.append(("int", k, V.rand_int(rng, k)))
            else:
                enc = rng.random() < 0.5
                classes = ("ascii", "high", "outside", "ydia") + (() if enc else ("tilde",))
                s = V.rand_string(rng, 9 if rng.random() < 0.985 else rng.choice([254, 256, 300, 65536, 70001]), classes)
                unsized = (i == nf - 1) and rng.random() < 0.5
                fields.append(("str", enc, unsized, s))
        chunks.append(fields)
    plans = []
    for fields in chunks:
        k = rng.choice([len(fields), len(fields), rng.randrange(0, len(fields) + 1)])
        extra = [rng.choice(SURPLUS) for _ in range(rng.randrange(0, 5 if k == len(fields) else 4))]
        plans.append((k, extra))
    trailing_break = rng.random() < 0.3
    return chunks, plans, trailing_break


def gen_prelude(rng, chunks):
    """A header written on the same writer *before* sanitisation is switched on (its strings are the very
    strings the chunks contain, so the same value is written in both modes); the reader skips it by slicing."""
    strs = [f[3] for c in chunks for f in c if f[0] == "str"]
    if not strs or rng.random() < 0.6:
        return []
    return [rng.choice(strs) for _ in range(rng.randrange(1, 4))]


def run(shard, rec, tier, seed):
    ns = stage.shim()
    rng = random.Random("C06-%d-%d" % (seed, shard["part"]))
    if "sweep" in shard:
        # chunk-length sweep: a first and a middle chunk of every length lo..hi (one long string, plain or encoded,
        # with y-diaeresis sprinkled in), complete / under- / over-read, followed by short chunks
        lo, hi = shard["sweep"]
        for L in range(lo, hi):
            enc = L % 2 == 1
            text = "".join("\xff" if (i % 97 == 5 or i == L - 1) and L % 3 == 0 else "abcdefgh"[i % 8] for i in range(L))
            long_chunk = [("int", "char", 5), ("str", enc, True, text)]
            chunks = [long_chunk, [("int", "short", 1000), ("str", not enc, False, "bcd")], long_chunk, [("int", "three", 70000)]]
            full = (2, [("get_byte",), ("get_string",)])
            plans = [full if L % 4 else (1, [("get_char",)] if L % 8 else []), (2, []), (L % 3, []) if L % 3 < 2 else full, (1, [("get_int",)])]
            run_case(ns, rec, chunks, plans, L % 5 == 0, [])
            rec.case(("sweep", L))
            rec.count("chunk-lengths-swept")
        rec.seen("chunk-length-ranges", "%d..%d" % (lo, hi - 1))
        return
    for _ in range(shard["n"]):
        chunks, plans, tb = gen_case(rng)
        run_case(ns, rec, chunks, plans, tb, gen_prelude(rng, chunks))
        odd = any(k != len(f) or extra for f, (k, extra) in zip(chunks, plans))
        rec.case((chunks, plans, tb), nontrivial=len(chunks) >= 2 and odd)
    rec.sample({"chunks": chunks[:3], "plans": plans[:3]})


def expected_text(s):
    return cp1252.text(cp1252.image(s).replace(b"\xff", b"y"))


def run_case(ns, rec, chunks, plans, trailing_break, prelude=()):
    case = {"chunks": chunks, "plans": plans, "trailing_break": trailing_break, "prelude": list(prelude)}
    w = ns.EoWriter()
    for i, s in enumerate(prelude):
        (w.add_encoded_string if i % 2 else w.add_string)(s)
    skip = len(w)
    if prelude:
        rec.count("cases-with-unsanitised-prelude")
    w.string_sanitization_mode = True
    starts = []
    try:
        for ci, fields in enumerate(chunks):
            starts.append(len(w) - skip)
            for f in fields:
                before = len(w)
                if f[0] == "int":
                    getattr(w, "add_" + f[1])(f[2])
                else:
                    _, enc, unsized, s = f
                    if unsized:
                        (w.add_encoded_string if enc else w.add_string)(s)
                    else:
                        (w.add_fixed_encoded_string if enc else w.add_fixed_string)(s, len(s))
                app = bytes(w.to_bytearray()[before:])
                rec.count("field-writes-scanned-for-FF")
                if 0xFF in app:
                    rec.violation("break-byte-in-field", "field %r was written as %s which contains the break byte" % (f, app.hex()), case)
                    return
            # other connections have writers of their own: one is created, configured and used between two chunks
            other = ns.EoWriter()
            other.string_sanitization_mode = (ci % 2 == 1)
            other.add_string("x\xff")
            rec.count("other-writers-used-in-between")
            if ci < len(chunks) - 1 or trailing_break:
                w.add_byte(0xFF)
    except Exception as ex:
        rec.violation("write-raises", "writing chunks raised %r" % ex, case)
        return
    whole = bytes(w.to_bytearray())
    out = whole[skip:]
    starts.append(len(out))  # where a chunk after the last one would start
    r = ns.EoReader(whole).slice(skip) if prelude else ns.EoReader(out)
    r.chunked_reading_mode = True
    mistyped = {}
    try:
        for ci, (fields, (k, extra)) in enumerate(zip(chunks, plans)):
            if r.position != starts[ci]:
                rec.violation("chunk-start-shifted", "chunk %d: reader at %d, writer recorded start %d" % (ci, r.position, starts[ci]), case)
                return
            brk = starts[ci + 1] - 1 if (ci < len(chunks) - 1 or trailing_break) else len(out)
            for f in fields[:k]:
                if f[0] == "int":
                    got, want = getattr(r, "get_" + f[1])(), f[2]
                else:
                    _, enc, unsized, s = f
                    want = expected_text(s)
                    if unsized:
                        got = (r.get_encoded_string if enc else r.get_string)()
                    else:
                        got = (r.get_fixed_encoded_string if enc else r.get_fixed_string)(len(s))
                rec.count("prefix-reads-checked")
                if got != want:
                    rec.violation("field-corrupted", "chunk %d field %r read back as %r" % (ci, f, got), case)
                    return
            for op in extra:
                got = getattr(r, op[0])(*op[1:])
                if isinstance(got, bytearray):
                    # the caller owns what get_bytes returned and goes on using it as a scratch buffer
                    kept = bytes(got)
                    got += b"abc\x02"
                    rec.count("returned-bytearrays-scribbled-on")
                    got = kept
                if k != len(fields):
                    # what a mistyped read returns is decided by this chunk alone: a reader that sees nothing but this
                    # chunk (and has read nothing before) is asked the same questions below
                    mistyped.setdefault(ci, []).append((op, bytes(got) if isinstance(got, bytearray) else got))
                if k == len(fields):
                    rec.count("surplus-reads-checked")
                    if not ((type(got) is int and got == 0) or (type(got) is str and got == "") or (isinstance(got, (bytes, bytearray)) and len(got) == 0)):
                        rec.violation("surplus-read-not-empty", "chunk %d fully read, surplus %r returned %r" % (ci, op, got), case)
                        return
                else:
                    rec.count("mistyped-reads")
                if r.position > brk:
                    rec.violation("read-crossed-break", "chunk %d: position %d beyond its break at %d after %r" % (ci, r.position, brk, op), case)
                    return
            if r.position > brk:
                rec.violation("read-crossed-break", "chunk %d: position %d beyond its break at %d" % (ci, r.position, brk), case)
                return
            r.next_chunk()
            rec.count("next-chunk-offsets-checked")
            if r.position != starts[ci + 1]:
                rec.violation("chunk-start-shifted", "after chunk %d: reader at %d, next chunk was written at %d" % (ci, r.position, starts[ci + 1]), case)
                return
        if r.remaining != 0:
            rec.violation("chunk-start-shifted", "data left after the last chunk: remaining=%d" % r.remaining, case)
        for ci, seen in mistyped.items():
            fields, (k, extra) = chunks[ci], plans[ci]
            brk = starts[ci + 1] - 1 if (ci < len(chunks) - 1 or trailing_break) else len(out)
            alone = ns.EoReader(out[starts[ci]:brk])
            alone.chunked_reading_mode = True
            for f in fields[:k]:
                if f[0] == "int":
                    getattr(alone, "get_" + f[1])()
                elif f[2]:
                    (alone.get_encoded_string if f[1] else alone.get_string)()
                else:
                    (alone.get_fixed_encoded_string if f[1] else alone.get_fixed_string)(len(f[3]))
            for op, got in seen:
                want = getattr(alone, op[0])(*op[1:])
                want = bytes(want) if isinstance(want, bytearray) else want
                rec.count("mistyped-reads-compared-with-chunk-read-alone")
                if got != want or type(got) is not type(want):
                    rec.violation("chunk-read-depends-on-other-chunks", "chunk %d: mistyped read %r returned %r after the earlier chunks were consumed, %r when the chunk is read on its own" % (ci, op, got, want), case)
                    return
    except Exception as ex:
        rec.violation("read-raises", "reading chunks raised %r" % ex, case)
