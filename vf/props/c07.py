"""C07 - EO number codec is a wire-safe bijection on its whole range.

Monitors (all on the real encode_number / decode_number imported from the working tree):
  roundtrip      decode(encode(n)) == n
  wire-safe      no 0x00 / 0xFF byte in encode(n), length exactly 4
  prefix         for n < 253**k the first k bytes alone decode to n and the rest is 0xFE filler
  differential   encode(n) == ref.encode(n)   (independent digit decomposition)
  decode-formula decode(b) == sum (b_i-1)*253**i up to the first 0xFE, at most 4 bytes
  injective      distinct n in a window never share an encoding (set of encodings has window size)
  icontract      the same post-conditions attached to the real functions as contracts
"""
import os
import random

from vf import stage
from vf.ref import numbers as ref

ID = "C07"
LEVEL = "exploration"
RULE = ("cases are integers n (encode side) and byte strings b (decode side); ranges below the "
        "stated bound are enumerated completely (every case distinct by construction), the 4-byte "
        "range is stratified over every (d3,d2) digit pair x boundary (d1,d0) pairs, windows round "
        "every multiple of 253^3 / 253^2 / 253 thresholds, plus seeded random n; non-trivial = every "
        "case (each exercises the full encode/decode path); distinct = distinct n / distinct b")
ASSUMPTIONS = [
    "reference codec vf/ref/numbers.py (divmod digit decomposition) is correct; it is cross-checked "
    "against the 24 literal vectors of the repository's own tests at start-up",
    "integers outside 0 <= n < 253^4 are outside the property's domain",
]
FLOORS = {"roundtrip": 1, "decode-formula": 1, "differential": 1}
SHARD_TIMEOUT = {"quick": 900, "thorough": 7200}

B = 253
B2, B3, B4 = B * B, B ** 3, B ** 4

VECTORS = [(0, (0x01, 0xFE, 0xFE, 0xFE)), (1, (0x02, 0xFE, 0xFE, 0xFE)), (28, (0x1D, 0xFE, 0xFE, 0xFE)),
           (100, (0x65, 0xFE, 0xFE, 0xFE)), (128, (0x81, 0xFE, 0xFE, 0xFE)), (252, (0xFD, 0xFE, 0xFE, 0xFE)),
           (253, (0x01, 0x02, 0xFE, 0xFE)), (254, (0x02, 0x02, 0xFE, 0xFE)), (255, (0x03, 0x02, 0xFE, 0xFE)),
           (32003, (0x7E, 0x7F, 0xFE, 0xFE)), (32004, (0x7F, 0x7F, 0xFE, 0xFE)), (32005, (0x80, 0x7F, 0xFE, 0xFE)),
           (64008, (0xFD, 0xFD, 0xFE, 0xFE)), (64009, (0x01, 0x01, 0x02, 0xFE)), (64010, (0x02, 0x01, 0x02, 0xFE)),
           (10000000, (0xB0, 0x3A, 0x9D, 0xFE)), (16194276, (0xFD, 0xFD, 0xFD, 0xFE)),
           (16194277, (0x01, 0x01, 0x01, 0x02)), (16194278, (0x02, 0x01, 0x01, 0x02)),
           (2048576039, (0x7E, 0x7F, 0x7F, 0x7F)), (2048576040, (0x7F, 0x7F, 0x7F, 0x7F)),
           (2048576041, (0x80, 0x7F, 0x7F, 0x7F)), (4097152079, (0xFC, 0xFD, 0xFD, 0xFD)),
           (4097152080, (0xFD, 0xFD, 0xFD, 0xFD))]



def shards(tier, seed):
    out = _shards(tier, seed)
    # what runs under -O also runs in an interpreter that turns every warning into an error (-W error)
    return out + [dict(s, _pyflags=["-W", "error"]) for s in out if s.get("_pyflags") == ["-O"]]


def _shards(tier, seed):
    out = []
    full = os.environ.get("VERIF_C07_FULL") == "1" and tier == "thorough"
    if tier == "quick":
        out.append({"kind": "enc_range", "lo": 0, "hi": B2 + 2000})
        out.append({"kind": "dec_exh", "maxlen": 2, "part": 0, "parts": 1})
        for p in range(8):
            out.append({"kind": "enc_strata", "part": p, "parts": 8, "pairs": 5})
        out.append({"kind": "enc_windows", "w": 300})
        for p in range(4):
            out.append({"kind": "enc_random", "n": 150000, "part": p})
        out.append({"kind": "dec_alpha", "maxlen": 5})
        out.append({"kind": "dec_random", "n": 200000})
        out.append({"kind": "contracts", "n": 40000})
        out.append({"kind": "polluted", "hi": B2 + 500})
        out.append({"kind": "shuffled", "n": 60000})
        out.append({"kind": "threads", "rounds": 3})
        out.append({"kind": "cold", "attempts": 120})
        out.append({"kind": "enc_random", "n": 40000, "part": 77, "_pyflags": ["-O"]})
        out.append({"kind": "dec_random", "n": 40000, "_pyflags": ["-OO"]})
    else:
        out.append({"kind": "threads", "rounds": 12})
        out += [{"kind": "cold", "attempts": 400, "part": p} for p in range(4)]
        step = B3 // 64 + 1
        for lo in range(0, B3 + 1, step):
            out.append({"kind": "enc_range", "lo": lo, "hi": min(B3 + 1000, lo + step)})
        for p in range(32):
            out.append({"kind": "dec_exh", "maxlen": 3, "part": p, "parts": 32})
        for p in range(32):
            out.append({"kind": "enc_strata", "part": p, "parts": 32, "pairs": 8})
        out.append({"kind": "enc_windows", "w": 1000})
        for p in range(32):
            out.append({"kind": "enc_random", "n": 1900000, "part": p})
        out.append({"kind": "dec_alpha", "maxlen": 6})
        for p in range(8):
            out.append({"kind": "dec_random", "n": 500000, "part": p})
        out.append({"kind": "contracts", "n": 400000})
        out.append({"kind": "polluted", "hi": B3 // 8})
        out += [{"kind": "shuffled", "n": 600000, "part": p} for p in range(4)]
        if full:
            step = (B4 - B3) // 1024 + 1
            for lo in range(B3, B4, step):
                out.append({"kind": "enc_range", "lo": lo, "hi": min(B4, lo + step)})
    return out


def _width(n):
    return 1 if n < B else 2 if n < B2 else 3 if n < B3 else 4


class Mon:
    def __init__(self, ns, rec):
        self.enc = ns.numbers.encode_number
        self.dec = ns.numbers.decode_number
        self.rec = rec
        self.prev = None  # (n, returned object, snapshot of its bytes): a held result must stay valid

    def check_n(self, n):
        rec = self.rec
        try:
            e = self.enc(n)
        except Exception as ex:
            rec.violation("encode-raises", "encode_number(%d) raised %r" % (n, ex), {"n": n})
            return None
        eb = bytes(e)
        if self.prev is not None and bytes(self.prev[1]) != self.prev[2]:
            rec.violation("result-aliased", "the object returned by encode_number(%d) changed from %s to %s when encode_number(%d) was called: distinct numbers share one encoding object" % (
                self.prev[0], self.prev[2].hex(), bytes(self.prev[1]).hex(), n), {"n": self.prev[0], "then": n})
        self.prev = (n, e, eb)
        if len(eb) != 4 or 0 in eb or 255 in eb:
            rec.violation("wire-unsafe", "encode_number(%d) = %s has wrong length or a 0x00/0xFF byte" % (n, eb.hex()), {"n": n, "enc": eb})
        r = ref.encode(n)
        if eb != r:
            rec.violation("differential-encode", "encode_number(%d) = %s, reference %s" % (n, eb.hex(), r.hex()), {"n": n, "enc": eb, "ref": r})
        try:
            d = self.dec(e)
        except Exception as ex:
            rec.violation("decode-raises", "decode_number(%s) raised %r" % (eb.hex(), ex), {"n": n, "enc": eb})
            return eb
        if d != n or type(d) is not int:
            rec.violation("roundtrip", "decode_number(encode_number(%d)) = %r" % (n, d), {"n": n, "enc": eb, "dec": d})
        if not isinstance(e, bytes):
            rec.violation("result-type", "encode_number(%d) returned a %s, not bytes" % (n, type(e).__name__), {"n": n})
        k = _width(n)
        pre = eb[:k]
        try:
            dp = self.dec(pre)
        except Exception as ex:
            dp = repr(ex)
        if dp != n or any(x != 0xFE for x in eb[k:]):
            rec.violation("prefix", "n=%d < 253^%d: first %d bytes %s decode to %r, tail %s" % (n, k, k, pre.hex(), dp, eb[k:].hex()), {"n": n, "enc": eb})
        return eb

    def check_b(self, b):
        rec = self.rec
        want = ref.decode(b)
        self._nb = getattr(self, "_nb", 0) + 1
        arg = b
        if self._nb % 3 == 0 and len(b) <= 8:
            # what EoReader does on a hot path: one scratch bytearray per connection, refilled in place for every
            # number and handed to decode_number again and again
            if not hasattr(self, "_scratch"):
                self._scratch = bytearray()
            self._scratch[:] = b
            arg = self._scratch
            rec.count("decodes-through-a-reused-bytearray")
        try:
            got = self.dec(arg)
        except Exception as ex:
            rec.violation("decode-raises", "decode_number(%s) raised %r" % (bytes(b).hex(), ex), {"bytes": bytes(b)})
            return
        if got != want or type(got) is not int:
            rec.violation("decode-formula", "decode_number(%s) = %r, positional formula gives %d" % (bytes(b).hex(), got, want), {"bytes": bytes(b), "got": got, "want": want})


def selfcheck(rec):
    for n, v in VECTORS:
        if ref.encode(n) != bytes(v) or ref.decode(bytes(v)) != n:
            rec.inconclusive.append("reference codec disagrees with a pinned repository vector: %d" % n)
            return False
    return True


def run(shard, rec, tier, seed):
    ns = stage.shim()
    if not selfcheck(rec):
        return
    mon = Mon(ns, rec)
    kind = shard["kind"]
    if kind == "enc_range":
        lo, hi = shard["lo"], min(shard["hi"], B4)
        seen = set()
        for n in range(lo, hi):
            e = mon.check_n(n)
            if e is not None:
                seen.add(e)
        if len(seen) != hi - lo:
            rec.violation("injective", "range [%d,%d): %d values share encodings" % (lo, hi, hi - lo - len(seen)), {"lo": lo, "hi": hi})
        cnt = hi - lo
        rec.case(None, n=cnt)
        for m in ("roundtrip", "wire-safe", "prefix", "differential", "injective-window-values"):
            rec.count(m, cnt)
        rec.seen("exhaustive_ranges", "[%d,%d)" % (lo, hi))
        rec.sample({"n": lo, "encode_number": bytes(ns.numbers.encode_number(lo))})
    elif kind == "enc_strata":
        # every (d3,d2) pair x boundary (d1,d0) pairs
        bvals = [0, 1, 126, 251, 252] if shard["pairs"] == 5 else [0, 1, 2, 125, 126, 127, 251, 252]
        cnt = 0
        for d3 in range(shard["part"], B, shard["parts"]):
            for d2 in range(B):
                base = d3 * B3 + d2 * B2
                for d1 in bvals:
                    for d0 in bvals:
                        mon.check_n(base + d1 * B + d0)
                        cnt += 1
        rec.case(None, n=cnt)
        for m in ("roundtrip", "wire-safe", "prefix", "differential"):
            rec.count(m, cnt)
        rec.seen("strata", "d3 = %d mod %d, all d2, %d x %d boundary (d1,d0)" % (shard["part"], shard["parts"], len(bvals), len(bvals)))
    elif kind == "enc_windows":
        w = shard["w"]
        centres = set()
        for k in range(1, B):
            centres.add(k * B3)
        for k in range(1, B, 7):
            centres.add(k * B2)
            centres.add(k * B)
        centres.update([B, B2, B3, B4 - 1, 0])
        cnt = 0
        for c in sorted(centres):
            lo, hi = max(0, c - w), min(B4, c + w + 1)
            encs = set()
            for n in range(lo, hi):
                e = mon.check_n(n)
                encs.add(e)
                cnt += 1
            if len(encs) != hi - lo:
                rec.violation("injective", "window round %d: encodings collide" % c, {"centre": c})
        rec.case(None, n=cnt)  # windows may overlap slightly for small centres; counted as visited values
        for m in ("roundtrip", "wire-safe", "prefix", "differential"):
            rec.count(m, cnt)
        rec.count("threshold_windows", len(centres))
    elif kind == "enc_random":
        rng = random.Random("C07-enc-%d-%d" % (seed, shard["part"]))
        vals = set()
        while len(vals) < shard["n"]:
            r = rng.random()
            if r < 0.7:
                vals.add(rng.randrange(B3, B4))
            elif r < 0.85:
                vals.add(rng.randrange(B2, B3))
            else:
                # numbers with many boundary digits
                vals.add(sum(rng.choice([0, 1, 251, 252, rng.randrange(B)]) * p for p in (1, B, B2, B3)))
        for n in vals:
            mon.check_n(n)
        rec.case(None, n=len(vals))
        for m in ("roundtrip", "wire-safe", "prefix", "differential"):
            rec.count(m, len(vals))
        rec.sample({"random_n": sorted(vals)[:3]})
    elif kind == "dec_exh":
        import itertools

        cnt = 0
        for L in range(0, shard["maxlen"] + 1):
            if L == 0:
                if shard["part"] == 0:
                    mon.check_b(b"")
                    cnt += 1
                continue
            firsts = range(shard["part"], 256, shard["parts"])
            for first in firsts:
                for rest in itertools.product(range(256), repeat=L - 1):
                    mon.check_b(bytes((first,) + rest))
                    cnt += 1
        rec.case(None, n=cnt)
        rec.count("decode-formula", cnt)
        rec.seen("decode_exhaustive", "all byte strings of length <= %d (first byte = %d mod %d)" % (shard["maxlen"], shard["part"], shard["parts"]))
    elif kind == "dec_alpha":
        import itertools

        alpha = [0, 1, 2, 127, 128, 252, 253, 254, 255]
        cnt = 0
        for L in range(3, shard["maxlen"] + 1):
            for t in itertools.product(alpha, repeat=L):
                mon.check_b(bytes(t))
                cnt += 1
        rec.case(None, n=cnt)
        rec.count("decode-formula", cnt)
        rec.sample({"decode_alphabet": alpha, "lengths": [3, shard["maxlen"]]})
    elif kind == "dec_random":
        rng = random.Random("C07-dec-%d-%d" % (seed, shard.get("part", 0)))
        seen = set()
        for _ in range(shard["n"]):
            L = rng.choice([3, 4, 4, 4, 5, 6, 8])
            b = bytes(rng.choice([rng.randrange(256), 254, 255, 0, 1, 253]) for _ in range(L))
            mon.check_b(b)
            # the documented argument is a bytes-like / sequence of ints: other containers must decode alike
            r = rng.random()
            if r < 0.05:
                mon.check_b(bytearray(b))
            elif r < 0.08:
                mon.check_b(memoryview(b))
            elif r < 0.11:
                want = ref.decode(b)
                for alt in (list(b), tuple(b)):
                    try:
                        got = mon.dec(alt)
                    except Exception as ex:
                        got = repr(ex)
                    if got != want:
                        rec.violation("decode-formula", "decode_number(%r) = %r, positional formula gives %d" % (alt, got, want), {"bytes": b, "container": type(alt).__name__})
            seen.add(b)
        rec.case(None, n=len(seen))
        rec.evals += shard["n"] - len(seen)
        rec.count("decode-formula", shard["n"])
        rec.sample({"decode_random": [x.hex() for x in sorted(seen)[:3]]})
    elif kind == "contracts":
        run_contracts(ns, rec, shard, seed)
    elif kind == "shuffled":
        # the same values again and again, in no particular order, encode and decode interleaved, decode
        # inputs that differ only in length / trailing bytes: hidden memo tables keyed too coarsely show here
        rng = random.Random("C07-shuf-%d-%d" % (seed, shard.get("part", 0)))
        pool = [rng.choice([rng.randrange(B4), rng.randrange(B2), rng.randrange(B), rng.randrange(B) * rng.choice([B, B2, B3])]) for _ in range(2000)]
        bpool = []
        for _ in range(1500):
            b = bytes(rng.choice([rng.randrange(256), 0, 1, 254, 255]) for _ in range(rng.randrange(0, 6)))
            bpool += [b, b + b"\x00", b + b"\xfe", b[:-1], b + b"\x00\x00", b"\x00" + b]
        for _ in range(shard["n"]):
            if rng.random() < 0.5:
                mon.check_n(rng.choice(pool))
            else:
                mon.check_b(rng.choice(bpool))
        rec.case(None, n=0, nontrivial=False)
        rec.evals += shard["n"]
        rec.count("roundtrip", shard["n"] // 2)
        rec.count("decode-formula", shard["n"] // 2)
        rec.count("repeated-shuffled-calls", shard["n"])
    elif kind == "threads":
        # pure functions called from several threads at once, each with numbers of another width
        from vf.mon import threads as thr

        calls = [0]

        def work(tid, rnd):
            r = random.Random("C07-thr-%d-%d" % (rnd, tid))
            lo, hi = [(0, 253), (253, B2), (B2, B3), (B3, B4)][tid % 4]
            out = []
            for _ in range(3000 if rnd < 100 else 250):
                n = r.randrange(lo, hi)
                e = ns.numbers.encode_number(n)
                d = ns.numbers.decode_number(e)
                calls[0] += 1
                if bytes(e) != ref.encode(n) or d != n:
                    out.append(("differential-encode", "encode_number(%d) = %s (reference %s), decoded %r, while other threads were encoding numbers of other widths" % (n, bytes(e).hex(), ref.encode(n).hex(), d), {"n": n, "threads": 4}))
                    break
            return out
        found, errors = thr.hammer(work, 4, shard["rounds"])
        f2, e2 = thr.hammer(work, 4, 1, inject=os.path.join(stage.REPO, "src", "eolib", "data"), first_round=100)
        found, errors = found + f2, errors + e2
        rec.count("line-events-with-yield-injection", getattr(thr.hammer, "lines_with_injection", 0))
        for e in errors:
            rec.violation("encode-raises", "a call from a worker thread raised: " + e, {"threads": 4})
        for mech, msg, case in found[:3]:
            rec.violation(mech, msg, case)
        rec.count("calls-from-concurrent-threads", calls[0])
        rec.case(("threads", shard["rounds"]), n=calls[0])
        rec.count("roundtrip", calls[0])
    elif kind == "cold":
        # the very first calls of a process come from several threads at once
        from vf.mon import threads as thr

        samples = [0, 1, 252, 253, 254, 64008, 64009, 70000, B3 - 1, B3, B3 + 1, 12345678, B4 - 1, 4092152065 % B4]

        def work(ns2, tid, attempt):
            out = []
            for k in range(6):
                n = samples[(tid * 3 + k + attempt) % len(samples)]
                e = ns2.numbers.encode_number(n)
                d = ns2.numbers.decode_number(ref.encode(n))
                if bytes(e) != ref.encode(n) or d != n:
                    out.append(("differential-encode", "first use from 8 threads: encode_number(%d) = %s (reference %s), decode_number(reference) = %r" % (n, bytes(e).hex(), ref.encode(n).hex(), d), {"n": n, "threads": 8}))
                    break
            return out
        found, errors = thr.cold(work, shard["attempts"])
        for e in errors[:2]:
            rec.violation("encode-raises", "first use from 8 threads raised: " + e, {"threads": 8})
        for mech, msg, case in found[:2]:
            rec.violation(mech, msg, case)
        # the namespace of this worker was replaced by the fresh imports above; nothing else runs in this shard
        rec.count("cold-start-attempts", shard["attempts"])
        rec.case(("cold", shard.get("part", 0)), n=shard["attempts"])
        rec.count("roundtrip", shard["attempts"])
    elif kind == "polluted":
        # hostile history: out-of-domain calls first (a codec with hidden shared state - caches, tables -
        # must not let them change what in-range numbers encode to afterwards), then the in-range sweep
        junk = [-1, -2, -252, -253, -254, -64009, -(B4), B4, B4 + 1, B4 * B, 2 ** 32, 2 ** 63, 2 ** 64 + 5, True, False]
        for j in junk:
            for f in (ns.numbers.encode_number,):
                try:
                    f(j)
                except Exception:
                    pass
        for b in (b"", b"\x00", b"\xff\xff\xff\xff", b"\xfe", bytes(9), bytearray(b"\x01\xfe\x07"), [1, 2, 3], (254, 7)):
            try:
                ns.numbers.decode_number(b)
            except Exception:
                pass
        rec.count("out-of-domain-calls-before-sweep", len(junk) + 8)
        # arguments passed by name (a memo keyed on positional arguments only would answer all of these alike)
        for n in (0, 1, 252, 253, 64008, 64009, 70000, B3, B4 - 1, 12345678):
            try:
                e = ns.numbers.encode_number(number=n)
                d = ns.numbers.decode_number(encoded_number=e)
            except Exception as ex:
                rec.violation("encode-raises", "encode_number(number=%d) / decode_number(encoded_number=...) raised %r" % (n, ex), {"n": n})
                continue
            if bytes(e) != ref.encode(n) or d != n:
                rec.violation("differential-encode", "by keyword: encode_number(number=%d) = %s (reference %s), decoded %r" % (n, bytes(e).hex(), ref.encode(n).hex(), d), {"n": n})
        rec.count("keyword-calls", 20)
        # numbers that are not plain ints: bool, an int subclass, IntEnum members (what callers pass for enum fields)
        import enum

        class _MyInt(int):
            pass

        class _Level(enum.IntEnum):
            Player = 0
            Guide = 1
            Admin = 252
            Big = 64008
        for v in [True, False, _MyInt(0), _MyInt(253), _MyInt(70000), _MyInt(B4 - 1)] + list(_Level):
            n = int(v)
            try:
                e = ns.numbers.encode_number(v)
            except Exception as ex:
                rec.violation("encode-raises", "encode_number(%r) [a %s equal to %d] raised %r" % (v, type(v).__name__, n, ex), {"n": n, "type": type(v).__name__})
                continue
            if bytes(e) != ref.encode(n):
                rec.violation("differential-encode", "encode_number(%r) = %s, reference for %d is %s" % (v, bytes(e).hex(), n, ref.encode(n).hex()), {"n": n, "type": type(v).__name__})
        rec.count("int-like-arguments", 10)
        for n in list(range(0, shard["hi"])) + [B3 - 1, B3, B3 + 1, B4 - 1, B4 - B, 12345678, 2048576040]:
            mon.check_n(n)
        cnt = shard["hi"] + 7
        rec.case(None, n=0, nontrivial=False)
        rec.evals += cnt
        for m in ("roundtrip", "wire-safe", "prefix", "differential"):
            rec.count(m, cnt)
        rec.sample({"polluted_history": [str(j) for j in junk[:6]], "then_checked": "all n < %d" % shard["hi"]})


class ContractBroken(Exception):
    pass


def run_contracts(ns, rec, shard, seed):
    """icontract post-conditions on the real functions (decorated copies; the module is untouched)."""
    from vf import setup as vsetup

    if not vsetup.add_deps_to_path():
        rec.count("icontract_unavailable")
        return
    import icontract

    evals = {"enc": 0, "dec": 0}

    def enc_post(number, result):
        evals["enc"] += 1
        rb = bytes(result)
        return len(rb) == 4 and 0 not in rb and 255 not in rb and ref.decode(rb) == number

    def dec_post(encoded_number, result):
        evals["dec"] += 1
        return result == ref.decode(encoded_number)

    enc = icontract.ensure(enc_post, error=ContractBroken)(ns.numbers.encode_number)
    dec = icontract.ensure(dec_post, error=ContractBroken)(ns.numbers.decode_number)
    rng = random.Random("C07-contract-%d" % seed)
    cnt = 0
    for _ in range(shard["n"]):
        n = rng.choice([rng.randrange(B4), rng.randrange(B3), rng.randrange(B) * rng.choice([1, B, B2, B3])])
        try:
            e = enc(n)
            dec(e)
            dec(e[: rng.randrange(0, 5)])
        except ContractBroken as ex:
            rec.violation("contract", "icontract post-condition failed for n=%d: %s" % (n, ex), {"n": n})
        cnt += 1
    rec.case(None, n=0, nontrivial=False)
    rec.evals += cnt
    rec.count("icontract_encode_post", evals["enc"])
    rec.count("icontract_decode_post", evals["dec"])


def finalize(agg, tier, seed):
    agg.extra["exhaustive"] = False
    agg.extra["exhaustive_note"] = ("encode side enumerated completely on: " + ", ".join(sorted(agg.sets.get("exhaustive_ranges", [])))[:600]
                                    + "; decode side completely on: " + "; ".join(sorted(agg.sets.get("decode_exhaustive", [])))[:300])
