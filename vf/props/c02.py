"""C02 - generated serializers emit exactly the wire format the XML prescribes.

Byte-for-byte differential monitor: every constructible object is serialized by the real generated
code (real EoWriter) and by the independent reference interpreter of the XML (vf/ref/interp.py on the
reference writer); outputs, exceptions, family()/action() and Packet.write are compared.  Metamorphic
twin: the same spec with every boolean attribute default spelled out must be accepted and produce the
same bytes for the same values."""
import random

from vf import campaign
from vf.gen import invalidate
from vf.gen.valuegen import ValueGen
from vf.ref.interp import Invalid, Unsupported
from vf.ref.writer import RefWriter

ID = "C02"
LEVEL = "exploration"
RULE = ("cases are (spec tree, class, value, entry sanitisation mode) tuples: the hand-written corpus tree plus SpecGen trees "
        "(non-degenerate dialect, certified by the independent grammar model), per class seeded ValueGen values incl. "
        "unencodable / 0xFF characters, unrecognised ordinals, optional holes, every switch case / default / no-case; each tree "
        "also rendered as its explicit-defaults twin; non-trivial = the reference serialization is non-empty or an exception "
        "is predicted; distinct = distinct (tree, class, value, mode)")
ASSUMPTIONS = [
    "reference interpreter vf/ref/interp.py is the eo-protocol semantics of the XML (DESIGN section 4); it shares no code with the generator",
    "domain = non-degenerate specs as DESIGN 4.4; values for which the reference has no defined semantics are counted as 'unsupported' and skipped",
]
FLOORS = {"serializations-compared": 200, "twin-serializations-compared": 50, "packet-family-action-checked": 1}
SHARD_TIMEOUT = {"quick": 900, "thorough": 3600}
TREES = {"quick": 48, "thorough": 1600}
VALUES = {"quick": 10, "thorough": 30}



def shards(tier, seed):
    from vf import engine

    return engine.with_interpreter_options(_plain_shards(tier, seed))


def _plain_shards(tier, seed):
    return campaign.tree_shards(TREES[tier], 3 if tier == "quick" else 20)


def classify_exc(e):
    msg = str(e)
    if isinstance(e, UnboundLocalError) and "reached_missing_optional" in msg:
        return "case-optional-after-outer-optional-unboundlocal"
    if isinstance(e, NameError) and ("'true'" in msg or "'false'" in msg):
        return "named-hardcoded-bool-nameerror"
    if isinstance(e, NameError):
        return "named-hardcoded-literal-nameerror"
    return "unexpected-exception:" + type(e).__name__


def classify_ctor(e, obj, tree):
    if isinstance(e, TypeError) and ("NoneType" in str(e)):
        return "optional-none-ctor-typeerror"
    if isinstance(e, NameError):
        return classify_exc(e)
    return "ctor-raises:" + type(e).__name__


def run(shard, rec, tier, seed):
    for ti in shard["trees"]:
        spec, feats = campaign.make_spec(seed, ti)
        errs = campaign.certified(spec)
        if errs:
            rec.count("specgen-not-certified")
            rec.inconclusive.append("SpecGen tree %d fails its own grammar certificate: %r" % (ti, errs[:2]))
            continue
        campaign.record_features(rec, feats)
        run_tree(rec, tier, seed, ti, spec)


def run_tree(rec, tier, seed, ti, spec):
    rng = random.Random("C02-%d-%d" % (seed, ti))
    saved = []
    with campaign.Tree(spec) as t:
        if t.error is not None:
            rec.count("base-spec-rejected-by-generator")
            rec.seen("base-rejections", repr(t.error)[:120])
            return
        rec.count("trees-staged")
        if t.generator_reused:
            rec.count("trees-generated-after-a-failed-run-on-a-broken-revision" if t.prior_failed else "trees-generated-by-an-instance-that-read-an-earlier-revision")
        it, br = t.interp, t.bridge
        classes = spec.classes()
        fam = it.types["PacketFamily"][0]
        act = it.types["PacketAction"][0]
        for name, decl, path in classes:
            vg = ValueGen(it, rng, "nd")
            for j in range(VALUES[tier] * (4 if ti < 0 else 1)):  # the hand-written tree gets four times the values
                obj = vg.message(name)
                mode = (j % 3 == 2)
                res = one(rec, t, ti, name, obj, mode)
                if res is not None and j < 8:  # every class takes part in the twin comparison
                    saved.append((obj, mode, res))
            if hasattr(decl, "family"):
                C = br.real_class((name,))
                try:
                    f, a = C.family(), C.action()
                    fo = next(v[1] for v in fam.values if v[0] == decl.family)
                    ao = next(v[1] for v in act.values if v[0] == decl.action)
                    ok = int(f) == fo and int(a) == ao and f.name == ("None_" if decl.family == "None" else decl.family) and a.name == ("None_" if decl.action == "None" else decl.action)
                except Exception as e:
                    ok, f, a = False, repr(e), None
                rec.count("packet-family-action-checked")
                if not ok:
                    rec.violation("family-action", "tree %d %s reports family/action %r/%r, declared %s/%s" % (ti, name, f, a, decl.family, decl.action),
                                  {"tree": ti, "class": name, "xml": t.files})
        if ti == -1 and saved:
            # generated serializers called from several threads at once, each with its own writer and its own
            # share of the values: the bytes must be the ones obtained single-threaded
            from vf.mon import threads as thr

            todo = [x for x in saved if x[2][0] == "bytes"]

            def work(tid, rnd):
                for obj, mode, res in todo[tid::4]:
                    got = real_serialize(t, obj, mode)
                    if got != res:
                        return [("bytes-differ", "tree %d %s: serialized from a worker thread (others serializing other classes) gives %r, single-threaded %r" % (ti, obj.cls[0], got, res), {"tree": ti, "class": obj.cls[0], "threads": 4})]
                return []
            found, errors = thr.hammer(work, 4, 2)
            for e in errors:
                rec.violation("unexpected-exception:thread", "a worker thread died: " + e, {"tree": ti})
            for mech, msg, case in found[:2]:
                rec.violation(mech, msg, case)
            rec.count("serializations-from-concurrent-threads", 2 * len(todo))
    # metamorphic twin: every boolean default spelled out
    with campaign.Tree(spec, explicit=True) as t2:
        if t2.error is not None:
            mech = "explicit-default-rejected"
            rec.violation(mech, "tree %d: spelling boolean attribute defaults explicitly makes the generator reject the spec: %r" % (ti, t2.error),
                          {"tree": ti, "xml": t2.files, "error": repr(t2.error)})
            rec.count("twin-rejected")
            return
        rec.count("twin-trees-staged")
        for obj, mode, res in saved:
            res2 = real_serialize(t2, obj, mode)
            rec.count("twin-serializations-compared")
            if res2 != res:
                rec.violation("explicit-default-changes-format", "tree %d %s: explicit boolean defaults change the output from %r to %r for %r" % (ti, obj.cls[0], res, res2, obj),
                              {"tree": ti, "class": obj.cls[0], "value": obj.to_json(), "xml": t2.files})


def real_serialize(t, obj, mode):
    """-> ('bytes', hex) | ('ctor', ExcType) | ('raise', ExcType)"""
    try:
        real = t.bridge.build(obj)
    except Exception as e:
        return ("ctor", type(e).__name__)
    w = t.EoWriter()
    w.string_sanitization_mode = mode
    try:
        t.bridge.real_class(obj.cls).serialize(w, real)
    except Exception as e:
        return ("raise", type(e).__name__)
    return ("bytes", bytes(w.to_bytearray()).hex())


def one(rec, t, ti, name, obj, mode):
    it, br = t.interp, t.bridge
    case = {"tree": ti, "class": name, "value": obj.to_json(), "entry_sanitize": mode}
    mw = RefWriter()
    mw.sanitize = mode
    try:
        it.serialize(obj, mw)
        want = bytes(mw.data)
        pred = None
    except Invalid as e:
        want, pred = None, e
    except Unsupported as e:
        want, pred = None, e
    rec.case((ti, name, repr(obj), mode), nontrivial=bool(want) or pred is not None)
    # every fourth value passes enum-typed fields as plain integers (the serializer converts with int() and
    # compares the switch field with ==, so an equal integer must select the same case)
    br.enum_as_int = (rec.evals % 4 == 3)
    # array parameters are documented as Iterable: lists, tuples, one-shot generators, a bytearray and a read-only
    # Sequence view take turns
    form = (rec.evals // 4) % 7
    rec.seen("array-argument-forms", form)
    try:
        real = br.build(obj, array_form=form)
    except Exception as e:
        br.enum_as_int = False
        if isinstance(pred, Unsupported):
            rec.count("unsupported-values")
            return None
        case["xml"] = t.files
        rec.violation(classify_ctor(e, obj, t), "tree %d: constructor of %s raised %r for the reference-valid value %r" % (ti, name, e, obj), case)
        return ("ctor", type(e).__name__)
    if br.enum_as_int:
        rec.count("values-with-enums-as-plain-ints")
    br.enum_as_int = False
    if isinstance(pred, Unsupported):
        rec.count("unsupported-values")
        return None
    w = t.EoWriter()
    w.string_sanitization_mode = mode
    # every fifth value goes into a writer that already holds data (a packet body follows a header, a nested
    # struct follows its parent's fields): what is appended must not depend on what is already there
    prefix = b"\x05\xfe\xff\x01" if rec.evals % 5 == 2 else b""
    if prefix:
        w.add_bytes(prefix)
        rec.count("serializations-into-non-empty-writer")
    C = br.real_class(obj.cls)
    try:
        C.serialize(w, real)
        got, exc = bytes(w.to_bytearray()), None
        if got[:len(prefix)] != prefix:
            rec.violation("prefix-modified", "tree %d %s: serialize changed bytes already in the writer: %s" % (ti, name, got[:len(prefix)].hex()), case)
        got = got[len(prefix):]
    except Exception as e:
        got, exc = None, e
    rec.count("serializations-compared")
    if exc is None and w.string_sanitization_mode != mode:
        rec.count("mode-leaks-seen")
    if not mode:
        # one long-lived writer per tree takes every object in turn, accepted or refused (a connection's send
        # buffer): what an earlier object did to it must not change the bytes of a later one
        sh = getattr(t, "shared_writer", None)
        if sh is None or len(sh) > 4000:
            sh = t.shared_writer = t.EoWriter()
        if pred is None and rec.evals % 3 == 0:
            # a refused object first: one declaration-violating change somewhere inside this very value
            try:
                ss = invalidate.sites(it, obj)
                site = ss[rec.evals % len(ss)] if ss else None
                bad = invalidate.apply(it, obj, site, None) if site else None
                if bad is not None:
                    C.serialize(sh, br.build(bad))
            except Exception:
                rec.count("refused-objects-before-a-reused-writer-serialization")
        n0 = len(sh)
        try:
            C.serialize(sh, real)
            got2 = bytes(sh.to_bytearray())[n0:]
        except Exception:
            got2 = None
        rec.count("serializations-into-a-reused-writer")
        if pred is None and exc is None and got2 != want:
            case["xml"] = t.files
            rec.violation("bytes-differ-on-reused-writer", "tree %d %s: into a writer that earlier objects were serialized into (some refused): %s, reference %s for %r" % (
                ti, name, got2.hex() if got2 is not None else None, want.hex(), obj), case)
    if pred is not None:
        # reference says invalid: real must raise SerializationError / ValueError
        rec.count("predicted-invalid")
        if exc is None:
            case["xml"] = t.files
            rec.violation("accepts-invalid", "tree %d %s: serialized an object the declaration forbids (%s): %r" % (ti, name, pred, obj), case)
        elif not isinstance(exc, (t.SerializationError, ValueError)):
            case["xml"] = t.files
            rec.violation(classify_exc(exc), "tree %d %s: raised %r where SerializationError/ValueError was due (%s)" % (ti, name, exc, pred), case)
        return ("raise", type(exc).__name__ if exc else "none")
    if exc is not None:
        case["xml"] = t.files
        if isinstance(exc, (t.SerializationError, ValueError)):
            rec.violation("rejects-valid", "tree %d %s: raised %r for a valid object %r" % (ti, name, exc, obj), case)
        else:
            rec.violation(classify_exc(exc), "tree %d %s: raised %r for a valid object %r" % (ti, name, exc, obj), case)
        return ("raise", type(exc).__name__)
    if got != want:
        n = next((i for i in range(min(len(got), len(want))) if got[i] != want[i]), min(len(got), len(want)))
        case["xml"] = t.files
        case["real"], case["reference"] = got, want
        rec.violation("bytes-differ", "tree %d %s: real %s, reference %s (first difference at offset %d) for %r" % (ti, name, got.hex(), want.hex(), n, obj), case)
    if hasattr(real, "write") and hasattr(C, "family"):
        w2 = t.EoWriter()
        w2.string_sanitization_mode = mode
        try:
            real.write(w2)
            if bytes(w2.to_bytearray()) != got:
                rec.violation("packet-write-differs", "tree %d %s: Packet.write output differs from serialize" % (ti, name), case)
        except Exception as e:
            rec.violation("packet-write-differs", "tree %d %s: Packet.write raised %r" % (ti, name, e), case)
        rec.count("packet-write-compared")
    if rec.evals % 500 == 1:
        rec.sample({"tree": ti, "class": name, "value": obj.to_json(), "bytes": got})
    return ("bytes", got.hex())
