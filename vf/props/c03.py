"""C03 - generated deserializers obey the spec on truncated or hostile bytes.

Differential monitor: hostile byte strings are deserialized by the real generated code - reading
through a lock-step proxy (real EoReader with a guarded buffer + reference reader model, logical fuel)
- and by the reference interpreter on the reference reader.  Compared: result object field by field
(incl. byte_size), final reader position and mode, exception class (only ValueError, and only where
the reference computes a negative fixed-string length).  Fuel exhaustion = non-termination."""
import random

from vf import campaign
from vf.gen.valuegen import ValueGen
from vf.mon import guard as guardmod
from vf.mon.lockstep import Divergence, FuelExhausted, LockstepReader
from vf.ref.interp import Invalid, OracleBudget, Unsupported
from vf.ref.reader import RefReader
from vf.ref.writer import RefWriter

ID = "C03"
LEVEL = "exploration"
RULE = ("cases are (spec tree, class, byte string, entry chunked mode): for seeded valid values of every top-level class the "
        "reference serialization is mutated into every prefix (all prefixes of short messages, sampled for long), "
        "substitutions / insertions biased to 00/FE/FF at every offset of short messages, junk suffixes, plus uniformly random "
        "and FF-dense strings; non-trivial = byte string non-empty; distinct = distinct (tree, class, bytes, mode)")
ASSUMPTIONS = [
    "reference interpreter + reference reader are the eo-protocol reading rules (DESIGN 4.2)",
    "hostile lengths for which the reference itself would need more than 3*10^3 (quick) / 4*10^4 (thorough) element reads are skipped and counted (oracle budget)",
    "termination is decided on logical fuel: 40 x (reference reader interactions: reads, next_chunk, remaining queries) + 4000 interactions through the proxy",
]
FLOORS = {"deserializations-compared": 500, "lockstep-reader-ops": 2000}
SHARD_TIMEOUT = {"quick": 900, "thorough": 5400}
TREES = {"quick": 48, "thorough": 1000}
VALUES = {"quick": 6, "thorough": 8}
PER_VALUE = {"quick": 40, "thorough": 60}
BUDGET = {"quick": 3000, "thorough": 40000}  # element reads the reference may spend on one hostile case
TIER = ["quick"]



def shards(tier, seed):
    from vf import engine

    return engine.with_interpreter_options(_plain_shards(tier, seed))


def _plain_shards(tier, seed):
    return campaign.tree_shards(TREES[tier], 3 if tier == "quick" else 16, capture=True)


def run(shard, rec, tier, seed):
    TIER[0] = tier
    for ti in shard["trees"]:
        spec, feats = campaign.make_spec(seed, ti)
        if campaign.certified(spec):
            rec.inconclusive.append("SpecGen tree %d fails its grammar certificate" % ti)
            continue
        campaign.record_features(rec, feats)
        with campaign.Tree(spec) as t:
            if t.error is not None:
                rec.count("base-spec-rejected-by-generator")
                continue
            rec.count("trees-staged")
            if t.generator_reused:
                rec.count("trees-generated-after-a-failed-run-on-a-broken-revision" if t.prior_failed else "trees-generated-by-an-instance-that-read-an-earlier-revision")
            run_tree(campaign.CaptureRec(rec, ti), tier, seed, ti, spec, t)


def mutations(rng, base, n):
    """Hostile variants of one valid serialization."""
    out = []
    L = len(base)
    if L <= 24:
        out += [base[:i] for i in range(L + 1)]
    else:
        out += [base[:i] for i in sorted(set([0, 1, 2, L - 1, L] + [rng.randrange(L) for _ in range(10)]))]
    hot = [0x00, 0xFE, 0xFF, 0xFF, 0x01, 0xFD]
    offs = list(range(L)) if L <= 16 else [rng.randrange(L) for _ in range(16)]
    for o in offs:
        b = bytearray(base)
        b[o] = rng.choice(hot)
        out.append(bytes(b))
    for _ in range(4):
        o = rng.randrange(L + 1)
        out.append(base[:o] + bytes(rng.choice(hot + [rng.randrange(256)]) for _ in range(rng.randrange(1, 4))) + base[o:])
    out.append(base + bytes(rng.randrange(256) for _ in range(rng.randrange(1, 9))))
    out.append(base + b"\xff" + base)
    out.append(bytes(rng.randrange(256) for _ in range(rng.randrange(0, 40))))
    out.append(bytes(rng.choice([0xFF, 0xFF, 0xFE, 0x00, 0x01, rng.randrange(256)]) for _ in range(rng.randrange(1, 30))))
    if L:
        # delete a byte, duplicate a byte
        o = rng.randrange(L)
        out.append(base[:o] + base[o + 1:])
        out.append(base[:o] + base[o:o + 1] + base[o:])
    rng.shuffle(out)
    return out[:n]


def run_tree(rec, tier, seed, ti, spec, t):
    rng = random.Random("C03-%d-%d" % (seed, ti))
    it = t.interp
    for name, decl, path in spec.classes():
        vg = ValueGen(it, rng, "nd")
        seen = set()
        for j in range(VALUES[tier] * (2 if ti < 0 else 1)):  # the hand-written tree gets four times the values
            obj = vg.message(name)
            mw = RefWriter()
            mw.sanitize = rng.random() < 0.3
            try:
                it.serialize(obj, mw)
                base = bytes(mw.data)
            except (Invalid, Unsupported):
                base = bytes(rng.randrange(256) for _ in range(rng.randrange(0, 20)))
            for b in mutations(rng, base, PER_VALUE[tier]):
                mode = rng.random() < 0.35
                if (b, mode) in seen:
                    continue
                seen.add((b, mode))
                one(rec, t, ti, name, b, mode)


def one(rec, t, ti, name, data, mode, use_guard=True):
    it, br = t.interp, t.bridge
    case = {"tree": ti, "class": name, "bytes": data, "entry_chunked": mode}
    rec.case((ti, name, data, mode), nontrivial=len(data) > 0)
    mr = RefReader(data)
    mr.chunked = mode
    want = wexc = None
    try:
        want = it.deserialize((name,), mr, [BUDGET[TIER[0]]])
    except ValueError as e:
        wexc = e
    except (Unsupported, OracleBudget) as e:
        wexc = e
    if isinstance(wexc, OracleBudget):
        rec.count("oracle-budget-skips")
        return
    fuel = 40 * mr.touches + 4000  # interactions: reads, next_chunk, remaining / position / mode accesses
    # how the reader is constructed: over the bytes themselves, or over a window of a larger buffer
    # (EoReader.slice, or a sliced memoryview) whose surroundings contain break bytes and junk
    how = (len(data) * 7 + ti + (1 if mode else 0)) % 5
    g = None
    if how in (3, 4):
        pre = b"\xff\x01\xfe\xff"[: 1 + (len(data) % 4)]
        post = b"\x02\xff\x00\xff\xff"[: 1 + (ti % 5)]
        big = pre + data + post
        if how == 3:
            real = t.EoReader(big).slice(len(pre), len(data))
        else:
            real = t.EoReader(memoryview(big)[len(pre):len(pre) + len(data)])
        rec.count("windowed-readers")
    else:
        real = t.EoReader(data if how else bytearray(data))
        if use_guard:
            g = guardmod.install(real, data)
    model = RefReader(data)
    real.chunked_reading_mode = mode
    model.chunked = mode
    ls = LockstepReader(real, model, fuel=fuel, guard=g)
    C = br.real_class((name,))
    got = gexc = None
    try:
        got = C.deserialize(ls)
    except FuelExhausted as e:
        case["xml"] = t.files
        if isinstance(wexc, Unsupported) and "zero-progress" in str(wexc):
            mech = "unsized-array-of-chunked-struct-never-terminates"
        else:
            mech = "does-not-terminate"
        rec.violation(mech, "tree %d %s.deserialize(%s, chunked=%r) used more than %d reader interactions (reference needs %d): %s" % (ti, name, data.hex(), mode, fuel, mr.touches, wexc),
                      case)
        return
    except Divergence as dv:
        case["xml"] = t.files
        case["trace"] = dv.trace[-12:]
        rec.violation("reader-divergence", "tree %d %s.deserialize(%s): real reader and reader model disagree: %s" % (ti, name, data.hex(), dv.what), case)
        return
    except Exception as e:
        gexc = e
        if use_guard and g is not None and isinstance(e, (AttributeError, TypeError, NotImplementedError)) and "GView" in repr(e):
            # the implementation uses a part of the buffer API the guarded view does not emulate: the guard is
            # a diagnostic, so run this case again without it (never an alarm)
            rec.count("guard-disabled-for-case")
            return one(rec, t, ti, name, data, mode, use_guard=False)
    rec.count("lockstep-reader-ops", ls.counter[0])
    if g is not None:
        rec.count("guarded-buffer-accesses", g.accesses)
        if g.bad:
            case["xml"] = t.files
            rec.violation("guarded-buffer", "tree %d %s.deserialize(%s): %s" % (ti, name, data.hex(), g.bad[0]), case)
    if isinstance(wexc, Unsupported):
        rec.count("unsupported-by-reference")
        rec.seen("unsupported-reasons", str(wexc)[:60])
        return
    rec.count("deserializations-compared")
    if wexc is not None:
        rec.count("negative-length-valueerrors")
        if gexc is None:
            case["xml"] = t.files
            rec.violation("missing-valueerror", "tree %d %s.deserialize(%s) returned although a fixed-string length decodes negative" % (ti, name, data.hex()), case)
        elif type(gexc) is not ValueError:
            case["xml"] = t.files
            rec.violation("unexpected-exception:" + type(gexc).__name__, "tree %d %s.deserialize(%s) raised %r (only ValueError is allowed here)" % (ti, name, data.hex(), gexc), case)
        check_mode(rec, real, mode, case, t, ti, name, data)
        return
    if gexc is not None:
        case["xml"] = t.files
        mech = "valueerror-not-allowed-here" if type(gexc) is ValueError else "unexpected-exception:" + type(gexc).__name__
        rec.violation(mech, "tree %d %s.deserialize(%s, chunked=%r) raised %r; the reading rules give %r" % (ti, name, data.hex(), mode, gexc, want), case)
        return
    diffs = br.compare(want, got, byte_size=True)
    if diffs:
        case["xml"] = t.files
        case["reference"] = want.to_json()
        rec.violation("result-differs", "tree %d %s.deserialize(%s, chunked=%r): %s" % (ti, name, data.hex(), mode, "; ".join(diffs[:4])), case)
    if real.position != mr.pos:
        case["xml"] = t.files
        rec.violation("position-differs", "tree %d %s.deserialize(%s): reader left at %d, reference %d" % (ti, name, data.hex(), real.position, mr.pos), case)
    check_mode(rec, real, mode, case, t, ti, name, data)
    if rec.evals % 2000 == 1:
        rec.sample({"tree": ti, "class": name, "bytes": data, "entry_chunked": mode, "result": want.to_json()})


def check_mode(rec, real, mode, case, t, ti, name, data):
    if bool(real.chunked_reading_mode) != mode:
        rec.count("mode-leaks-seen")
