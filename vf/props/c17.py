"""C17 - the generator rejects ill-formed specifications instead of emitting code.

One-rule spec mutants (vf/gen/illform.py) of valid trees: each mutant breaks one rule of the grammar at
one eligible instruction / type / file, at every placement class (top level, inside <chunked>, inside a
switch case, case inside chunked, every file).  Oracle: the independent grammar model
(vf/ref/grammar.py) must accept the base tree and reject the mutant for the intended rule (otherwise
the mutant is discarded and counted).  Monitor: the real ProtocolCodeGenerator(...).generate(...) must
raise; returning is a violation."""
import os
import random

from vf import campaign, stage
from vf.gen import illform
from vf.gen import spec as S
from vf.ref import grammar

ID = "C17"
LEVEL = "exploration"
RULE = ("cases are (valid spec tree, rule, operator, site): corpus + SpecGen trees x the catalogue of one-rule edits (redefined / "
        "unknown types, redefined fields, bad or doubly referenced lengths, delimited arrays / breaks outside chunked, required "
        "after optional, anything after dummy, unnamed without value, hard-coded values of wrong type / length / on non-basic "
        "types, lengths on non-strings, malformed enum values and underlying types, unsuitable switch fields and case values, "
        "lone defaults, packet family / action / placement errors) at up to N random sites per (operator, placement class); "
        "non-trivial = the grammar model confirms the intended rule is broken; distinct = distinct (tree, operator, site)")
ASSUMPTIONS = [
    "the grammar model vf/ref/grammar.py states the rules of the property's catalogue; base trees must be accepted by it and by the generator",
    "edits outside the statement's catalogue (enum ordinal beyond its underlying range, switch without cases, literal text on <array>/<length>) are not used",
]
FLOORS = {"mutants-run-through-generator": 300, "rules-exercised": 15}
SHARD_TIMEOUT = {"quick": 900, "thorough": 5400}
TREES = {"quick": 32, "thorough": 400}
PER = {"quick": 2, "thorough": 8}



def shards(tier, seed):
    from vf import engine

    return engine.with_interpreter_options(_plain_shards(tier, seed))


def _plain_shards(tier, seed):
    return campaign.tree_shards(TREES[tier], 2 if tier == "quick" else 8)


def generator_accepts(files, base_files=None):
    """base_files: the valid tree the mutant was derived from - it is generated first by the same generator
    instance from the same input directory, which is then rewritten in place (a rule must not be bypassed
    by anything an earlier successful run left behind in the instance)."""
    root = stage.scratch("vf-c17-")
    try:
        xml_root = os.path.join(root, "xml")
        os.makedirs(xml_root)
        from pathlib import Path

        if base_files is not None:
            import contextlib
            import io
            import shutil

            stage.write_tree(xml_root, base_files)
            g = stage.generator_class()(Path(xml_root))
            try:
                with contextlib.redirect_stdout(io.StringIO()):
                    g.generate(Path(os.path.join(root, "out-first")))
                    shutil.rmtree(xml_root)
                    os.makedirs(xml_root)
                    stage.write_tree(xml_root, files)
                    try:
                        g.generate(Path(os.path.join(root, "out")))
                        return True, None
                    except Exception as e:
                        return False, e
            except Exception:
                shutil.rmtree(xml_root, ignore_errors=True)
                os.makedirs(xml_root)
        stage.write_tree(xml_root, files)
        ok, err, out = stage.run_generator(xml_root, os.path.join(root, "out"))
        return ok, err
    finally:
        stage.drop(root)


def run(shard, rec, tier, seed):
    for ti in shard["trees"]:
        spec, feats = campaign.make_spec(seed, ti, allow_empty=False)
        if grammar.check(spec):
            rec.inconclusive.append("SpecGen tree %d fails its grammar certificate" % ti)
            continue
        base_files = S.render(spec)
        ok, err = generator_accepts(base_files)
        if not ok:
            rec.count("base-spec-rejected-by-generator")
            continue
        rec.count("base-trees")
        rng = random.Random("C17-%d-%d" % (seed, ti))
        muts = list(illform.instruction_mutants(spec, rng, PER[tier])) + list(illform.type_mutants(spec, rng, 1 if tier == "quick" else 3)) + list(illform.instruction_mutants(spec, rng, PER[tier], ops=illform.LATE_OPS))
        for rule, opname, placement, mut in muts:
            errs = grammar.check(mut)
            rules = {e[0] for e in errs}
            if rule not in rules:
                rec.count("discard:grammar-model-does-not-confirm")
                rec.seen("unconfirmed-operators", opname + (":accepted" if not errs else ":" + sorted(rules)[0]))
                continue
            files = S.render(mut)
            reuse = rec.evals % 3 == 0 or opname.endswith("-removed-from-enum")
            ok, err = generator_accepts(files, base_files if reuse else None)
            if reuse:
                rec.count("mutants-run-on-an-instance-that-generated-the-valid-tree-first")
            rec.count("mutants-run-through-generator")
            rec.count("rule:" + rule)
            rec.seen("rules", rule)
            rec.seen("operator-x-placement", opname + "@" + placement.split(":")[0])
            rec.case((ti, opname, placement, repr(errs[:1])))
            if ok:
                rec.violation("accepted:%s:%s" % (rule, opname), "tree %d: the generator produced code for a spec that breaks rule '%s' (%s at %s): %s" % (ti, rule, opname, placement, errs[0][1]),
                              {"tree": ti, "rule": rule, "operator": opname, "placement": placement, "where": errs[0][1], "xml": files})
            else:
                rec.count("rejected-with:" + type(err).__name__)
            if rec.evals % 400 == 1:
                rec.sample({"tree": ti, "rule": rule, "operator": opname, "placement": placement, "where": errs[0][1], "generator_error": repr(err)[:160]})
    rec.count("rules-exercised", 0)


def finalize(agg, tier, seed):
    agg.counters["rules-exercised"] = len(agg.sets.get("rules", ()))
