"""C09 - EoWriter validates atomically and sanitises exactly when asked.

Per-call snapshot monitor on the real EoWriter: contents before/after every add_* call are compared
with the reference writer's verdict (valid / ValueError) and appended bytes.  Exception path included:
a rejected call must raise ValueError and leave the contents unchanged.  A direct (model-free) check
decodes each string write and requires that with sanitisation on no 0xFF occurs outside the padding
tail, and with it off the bytes are the exact windows-1252 image."""
import random

from vf import stage
from vf.gen import values as V
from vf.ref import cp1252
from vf.ref import strings as refstr
from vf.ref.writer import RefWriter

ID = "C09"
LEVEL = "exploration"
RULE = ("cases are writer histories (sequences of add_* calls and sanitisation-mode assignments on one writer) mixing valid "
        "and invalid calls: integers in range / at the limit / far beyond, every string method at every length relation "
        "(<,=,> requested length) x padded x mode; generated from the seed; non-trivial = history has >= 2 calls of which at "
        "least one is accepted; distinct = distinct histories")
ASSUMPTIONS = [
    "integers are >= 0 (negative ones are outside the property's domain)",
    "a string's length is its number of characters; each character occupies exactly one windows-1252 byte ('?' when unencodable)",
]
FLOORS = {"calls-checked": 1000, "rejections-checked": 100, "sanitised-string-writes": 100}



def shards(tier, seed):
    from vf import engine

    return engine.with_interpreter_options(_plain_shards(tier, seed))


def _plain_shards(tier, seed):
    if tier == "quick":
        return [{"n": 1250, "part": p} for p in range(16)] + [{"grid": True}] + [{"sweep": (lo, lo + 275)} for lo in range(0, 2200, 275)]
    return [{"n": 15625, "part": p} for p in range(64)] + [{"grid": True}] + [{"sweep": (lo, lo + 1100)} for lo in range(0, 13200, 1100)] + [{"sweep": (c - 3, c + 4)} for c in (16384, 32768, 65536)]


INT_OPS = {"add_byte": "byte", "add_char": "char", "add_short": "short", "add_three": "three", "add_int": "int"}


def gen_op(rng):
    r = rng.random()
    if r < 0.32:
        name = rng.choice(list(INT_OPS))
        return (name, V.intlike(rng, V.rand_int(rng, INT_OPS[name], allow_over=True)))
    if r < 0.38:
        return ("add_bytes", bytes(rng.randrange(256) for _ in range(rng.randrange(0, 6))))
    if r < 0.5:
        return (rng.choice(["add_string", "add_encoded_string"]), V.rand_string(rng, 10))
    if r < 0.9:
        s = V.rand_string(rng, 8 if rng.random() < 0.97 else rng.choice([64, 255, 256, 1000]))
        rel = rng.random()
        L = len(s) if rel < 0.4 else len(s) + rng.randrange(1, 5) if rel < 0.7 else max(0, len(s) - rng.randrange(1, 4))
        if rng.random() < 0.03:
            L = len(s) + rng.choice([253, 254, 255, 256, 1000, 64009, 64010, 70000, 200000])
        return (rng.choice(["add_fixed_string", "add_fixed_encoded_string"]), s, L, rng.random() < 0.5)
    return ("mode", rng.random() < 0.6)


def run(shard, rec, tier, seed):
    ns = stage.shim()
    W = ns.EoWriter
    if shard.get("grid"):
        run_grid(W, rec)
        return
    if "sweep" in shard:
        # string-length sweep: strings of every length lo..hi (y-diaeresis first, last and every 89th character)
        # through every string method, with the declared length equal / one short / one long / padded beyond
        lo, hi = shard["sweep"]
        for L in range(lo, hi):
            s = "".join("\xff" if i in (0, L - 1) or i % 89 == 3 else "abc dXY\xe9"[(i + L) % 8] for i in range(L))
            mode = L % 2 == 1
            hist = [("add_short", 300), ("mode", mode), ("add_string", s), ("add_encoded_string", s),
                    ("add_fixed_string", s, L, False), ("add_fixed_encoded_string", s, L, L % 3 == 0),
                    ("add_fixed_string", s, L + (1, 2, 64)[L % 3], True), ("add_fixed_string", s, L + 1, False),
                    ("add_fixed_encoded_string", s, max(0, L - 1), L % 2 == 0), ("mode", not mode), ("add_fixed_encoded_string", s, L + 5, True), ("add_char", 9)]
            run_history(W, rec, hist)
            rec.case(("sweep", L))
            rec.count("string-lengths-swept")
        rec.seen("string-length-ranges", "%d..%d" % (lo, hi - 1))
        return
    rng = random.Random("C09-%d-%d" % (seed, shard["part"]))
    for _ in range(shard["n"]):
        hist = [gen_op(rng) for _ in range(rng.randrange(2, 14))]
        # the same string value written again later in the history (other method / other mode): a writer
        # that remembers anything per string would show here
        strs = [o for o in hist if o[0].startswith("add_") and len(o) > 1 and isinstance(o[1], str)]
        if strs and rng.random() < 0.5:
            src = rng.choice(strs)
            s2 = src[1]
            k = rng.randrange(len(hist) + 1)
            extra = [("mode", rng.random() < 0.5), (rng.choice(["add_string", "add_encoded_string"]), s2)] if rng.random() < 0.5 else \
                    [("mode", rng.random() < 0.5), (rng.choice(["add_fixed_string", "add_fixed_encoded_string"]), s2, len(s2) + rng.choice([0, 0, 2]), True)]
            hist[k:k] = extra
        accepted = run_history(W, rec, hist)
        rec.case(hist, nontrivial=accepted >= 1)
    rec.sample({"history": hist})


def run_grid(W, rec):
    """Every string method x length relation x padded x mode x string class, on a non-empty writer."""
    n = 0
    for meth in ("add_fixed_string", "add_fixed_encoded_string"):
        for s in ("", "a", "ab", "aÿb", "ÿ", "ÿÿÿ", "~x", "Ā😀", "abc~ÿ€"):
            for dL in (-2, -1, 0, 1, 3):
                for padded in (False, True):
                    for mode in (False, True):
                        L = len(s) + dL
                        hist = [("add_char", 7), ("mode", mode), (meth, s, L, padded), ("add_byte", 255)]
                        run_history(W, rec, hist)
                        rec.case(hist)
                        n += 1
    # a declared length below zero is violated by every string, the empty one included
    for meth in ("add_fixed_string", "add_fixed_encoded_string"):
        for s in ("", "a", "ÿb"):
            for L in (-1, -2, -7, -256, -(2 ** 40)):
                for padded in (False, True):
                    for mode in (False, True):
                        hist = [("add_char", 7), ("mode", mode), (meth, s, L, padded), ("add_byte", 255)]
                        run_history(W, rec, hist)
                        rec.case(hist)
                        rec.count("negative-declared-lengths")
                        n += 1
    for name, kind in INT_OPS.items():
        lim = V.LIMITS[kind]
        for v in (0, 1, lim - 1, lim, lim + 1, lim * 253, 2 ** 64, 2 ** 64 + 1, 2 ** 1023, 2 ** 1024, 10 ** 400, 10 ** 4000):
            hist = [("add_string", "x"), (name, v), (name, 0)]
            run_history(W, rec, hist)
            rec.case(hist)
            n += 1
    rec.count("grid-cases", n)


def run_history(W, rec, hist):
    w = W()
    m = RefWriter()
    accepted = 0
    decoy = W()  # a second writer driven in between: instance state must not be shared
    for i, op in enumerate(hist):
        try:
            decoy.string_sanitization_mode = (i % 2 == 0)
            decoy.add_fixed_string("\xff~x", 5, True)
            decoy.add_int(-1 if i % 4 == 0 else 253 ** 4)
        except ValueError:
            pass
        if op[0] == "mode":
            w.string_sanitization_mode = op[1]
            m.sanitize = op[1]
            if w.string_sanitization_mode != op[1]:
                rec.violation("mode-not-kept", "string_sanitization_mode reads back %r after assigning %r" % (w.string_sanitization_mode, op[1]), {"history": hist[: i + 1]})
            continue
        snap = w.to_bytearray()
        before = bytes(snap)
        if i % 3 == 1:
            # the copy belongs to the caller: overwriting and growing it must not reach the writer
            snap[:] = b"\x5a" * len(snap)
            snap.extend(b"zz")
            rec.count("to_bytearray-copies-scribbled")
        mbefore = len(m.data)
        try:
            getattr(m, op[0])(*op[1:])
            valid = True
        except ValueError:
            valid = False
        try:
            if op[0] == "add_bytes" and i % 2:
                # a caller-owned mutable argument, changed right after the call
                arg = bytearray(op[1])
                r = w.add_bytes(arg)
                arg[:] = b"\xee" * len(arg)
                arg.extend(b"q")
            else:
                r = getattr(w, op[0])(*op[1:])
            raised = None
        except Exception as ex:
            raised = ex
        after = bytes(w.to_bytearray())
        rec.count("calls-checked")
        case = {"history": hist[: i + 1], "sanitize": m.sanitize}
        desc = "%s%r (sanitize=%r, %d bytes already written)" % (op[0], op[1:], m.sanitize, len(before))
        if raised is not None:
            rec.count("rejections-checked")
            if not isinstance(raised, ValueError):
                rec.violation("wrong-exception", "%s raised %r, expected ValueError or acceptance" % (desc, raised), case)
            elif valid:
                rec.violation("rejects-valid", "%s raised ValueError although the call is valid" % desc, case)
            if after != before:
                rec.violation("non-atomic-reject", "%s raised but the writer's contents changed from %s to %s" % (desc, before.hex(), after.hex()), case)
            if len(w) != len(before):
                rec.violation("non-atomic-reject", "%s raised but len(writer) changed" % desc, case)
            if not valid:
                continue
            return accepted
        if not valid:
            rec.violation("accepts-invalid", "%s returned instead of raising ValueError; appended %s" % (desc, after[len(before):].hex()), case)
            return accepted
        accepted += 1
        if after[: len(before)] != before:
            rec.violation("earlier-bytes-modified", "%s modified bytes written earlier" % desc, case)
        app = after[len(before):]
        want = bytes(m.data[mbefore:])
        if len(app) != len(want):
            rec.violation("appended-count", "%s appended %d bytes, declared %d" % (desc, len(app), len(want)), case)
        elif app != want:
            rec.violation("appended-bytes", "%s appended %s, reference %s" % (desc, app.hex(), want.hex()), case)
        if len(w) != len(after):
            rec.violation("len-mismatch", "len(writer) %d != len(to_bytearray()) %d" % (len(w), len(after)), case)
        # direct string checks, independent of the writer model
        if op[0] in ("add_string", "add_encoded_string", "add_fixed_string", "add_fixed_encoded_string") and len(app) == len(want):
            s = op[1]
            body = refstr.decode(app) if "encoded" in op[0] else app
            padded = len(op) > 3 and op[3]
            text, tail = body[: len(s)], body[len(s):]
            enc = "encoded" in op[0]

            def same(got, img):
                # an encoded string cannot carry 0x7E ('~'): those positions are not comparable after decoding
                return len(got) == len(img) and all(g == w for g, w in zip(got, img) if not (enc and w == 0x7E))
            if any(b != 0xFF for b in tail) or (tail and not padded):
                rec.violation("padding", "%s: bytes after the string are %s" % (desc, tail.hex()), case)
            if m.sanitize:
                rec.count("sanitised-string-writes")
                if 0xFF in text:
                    rec.violation("sanitise-miss", "%s emitted 0xFF inside the string portion: %s" % (desc, text.hex()), case)
                if not same(text, cp1252.image(s).replace(b"\xff", b"y")):
                    rec.violation("sanitise-other-change", "%s: string portion %s is not the image with y-diaeresis -> y" % (desc, text.hex()), case)
            else:
                rec.count("plain-string-writes")
                if not same(text, cp1252.image(s)):
                    rec.violation("not-exact-image", "%s: emitted %s, exact windows-1252 image is %s" % (desc, text.hex(), cp1252.image(s).hex()), case)
        if r is not None:
            rec.violation("returns-value", "%s returned %r" % (desc, r), case)
    return accepted
