"""Reference model of the chunked reader: state (data, pos, chunked, chunk_start).

The break of the current chunk is the first 0xFF at or after chunk_start (else len(data)); it
depends on where the current chunk started, not on the read position.  All reads are clipped to
`remaining`; exhausted reads give 0 / empty."""
from . import cp1252, numbers, strings


class RefReader:
    __slots__ = ("data", "pos", "chunked", "chunk_start", "ops", "touches", "modes")

    def __init__(self, data):
        self.data = bytes(data)
        self.pos = 0
        self.chunked = False
        self.chunk_start = 0
        self.ops = 0  # number of primitive operations (fuel accounting)
        self.touches = 0  # every interaction incl. `remaining` queries (fuel for loops that never read)
        self.modes = None  # set to a list to log the mode in force at every read / next_chunk

    # -- observers
    @property
    def brk(self):
        i = self.data.find(b"\xff", self.chunk_start)
        return len(self.data) if i < 0 else i

    @property
    def remaining(self):
        self.touches += 1
        if self.chunked:
            b = self.brk
            return b - min(self.pos, b)
        return len(self.data) - self.pos

    @property
    def position(self):
        return self.pos

    @property
    def chunked_reading_mode(self):
        return self.chunked

    @chunked_reading_mode.setter
    def chunked_reading_mode(self, v):
        self.chunked = v

    # -- primitives
    def _take(self, n):
        self.ops += 1
        self.touches += 1
        if self.modes is not None:
            self.modes.append(bool(self.chunked))
        n = min(n, self.remaining)
        out = self.data[self.pos:self.pos + n]
        self.pos += n
        return out

    def get_byte(self):
        b = self._take(1)
        return b[0] if b else 0

    def get_bytes(self, n):
        return bytearray(self._take(n))

    def get_char(self):
        return numbers.decode(self._take(1))

    def get_short(self):
        return numbers.decode(self._take(2))

    def get_three(self):
        return numbers.decode(self._take(3))

    def get_int(self):
        return numbers.decode(self._take(4))

    def get_string(self):
        return cp1252.text(self._take(self.remaining))

    def get_encoded_string(self):
        return cp1252.text(strings.decode(self._take(self.remaining)))

    @staticmethod
    def _unpad(bs):
        i = bs.find(b"\xff")
        return bs if i < 0 else bs[:i]

    def get_fixed_string(self, length, padded=False):
        if length < 0:
            raise ValueError("negative length")
        bs = self._take(length)
        if padded:
            bs = self._unpad(bs)
        return cp1252.text(bs)

    def get_fixed_encoded_string(self, length, padded=False):
        if length < 0:
            raise ValueError("negative length")
        bs = strings.decode(self._take(length))
        if padded:
            bs = self._unpad(bs)
        return cp1252.text(bs)

    def next_chunk(self):
        self.ops += 1
        self.touches += 1
        if self.modes is not None:
            self.modes.append(bool(self.chunked))
        if not self.chunked:
            raise RuntimeError("not in chunked reading mode")
        p = self.brk
        if p < len(self.data):
            p += 1
        self.pos = p
        self.chunk_start = p

    def slice(self, index=None, length=None):
        if index is None:
            index = self.pos
        if length is None:
            length = max(0, len(self.data) - index)
        if index < 0 or length < 0:
            raise ValueError("negative")
        b = min(index, len(self.data))
        e = min(len(self.data), b + length)
        return RefReader(self.data[b:e])

    def state(self):
        return (self.pos, self.remaining, self.chunked)
