"""Reference EO number codec: base-253 digits, +1 bias, 0xFE filler (written from the format's
description, not from the repository's code)."""
B = 253
POW = (1, B, B * B, B * B * B, B * B * B * B)
LIMIT = {"byte": 256, "char": B, "short": B * B, "three": B ** 3, "int": B ** 4}
WIDTH = {"byte": 1, "char": 1, "short": 2, "three": 3, "int": 4}


def encode(n):
    """4-byte encoding of 0 <= n < 253**4: little-endian digits d_i+1, absent high digits = 0xFE."""
    digits = []
    m = n
    for _ in range(4):
        m, d = divmod(m, B)
        digits.append(d)
    # number of significant digits (at least one)
    k = 4
    while k > 1 and digits[k - 1] == 0:
        k -= 1
    return bytes([digits[i] + 1 if i < k else 0xFE for i in range(4)])


def decode(bs):
    """sum (b_i - 1) * 253**i over the first min(len,4) bytes, stopping at the first 0xFE."""
    total = 0
    for i, b in enumerate(bytes(bs)[:4]):
        if b == 0xFE:
            break
        total += (b - 1) * POW[i]
    return total
