"""Reference model of the writer: validity predicate and appended bytes per add_* call."""
from . import cp1252, numbers, strings


class RefWriter:
    def __init__(self):
        self.data = bytearray()
        self.sanitize = False
        self.ops = 0
        self.modes = None  # set to a list to log (operation, sanitisation mode) per write

    @property
    def string_sanitization_mode(self):
        return self.sanitize

    @string_sanitization_mode.setter
    def string_sanitization_mode(self, v):
        self.sanitize = v

    def __len__(self):
        return len(self.data)

    def to_bytearray(self):
        return bytearray(self.data)

    def _log(self, name):
        if self.modes is not None:
            self.modes.append((name, bool(self.sanitize)))

    def _int(self, kind, n):
        self.ops += 1
        self._log("add_" + kind)
        if n >= numbers.LIMIT[kind]:
            raise ValueError("%d does not fit %s" % (n, kind))
        if kind == "byte":
            self.data.append(n)
        else:
            self.data += numbers.encode(n)[: numbers.WIDTH[kind]]

    def add_byte(self, n):
        self._int("byte", n)

    def add_char(self, n):
        self._int("char", n)

    def add_short(self, n):
        self._int("short", n)

    def add_three(self, n):
        self._int("three", n)

    def add_int(self, n):
        self._int("int", n)

    def add_bytes(self, bs):
        self.ops += 1
        self._log("add_bytes")
        self.data += bytes(bs)

    def _img(self, s):
        b = cp1252.image(s)
        if self.sanitize:
            b = b.replace(b"\xff", b"y")
        return b

    def add_string(self, s):
        self.ops += 1
        self._log("add_string")
        self.data += self._img(s)

    def add_encoded_string(self, s):
        self.ops += 1
        self._log("add_encoded_string")
        self.data += strings.encode(self._img(s))

    @staticmethod
    def _check(s, length, padded):
        if padded:
            if len(s) > length:
                raise ValueError("padded string too long")
        elif len(s) != length:
            raise ValueError("string of wrong length")

    def add_fixed_string(self, s, length, padded=False):
        self.ops += 1
        self._log("add_fixed_string")
        self._check(s, length, padded)
        b = self._img(s)
        if padded:
            b = b + b"\xff" * (length - len(b))
        self.data += b

    def add_fixed_encoded_string(self, s, length, padded=False):
        self.ops += 1
        self._log("add_fixed_encoded_string")
        self._check(s, length, padded)
        b = self._img(s)
        if padded:
            b = b + b"\xff" * (length - len(b))
        self.data += strings.encode(b)
