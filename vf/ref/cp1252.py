"""cp1252 image of a Python string, built from the codec's *data table* (not its code path):
character -> byte, anything unencodable -> '?'.  decode: byte -> char, undefined -> U+FFFD."""
import encodings.cp1252 as _cp

_DEC = _cp.decoding_table  # 256-char string, '￾' marks undefined
CHAR2BYTE = {}
for _b, _ch in enumerate(_DEC):
    if _ch != "￾":
        CHAR2BYTE[_ch] = _b
UNDEFINED_BYTES = [b for b, ch in enumerate(_DEC) if ch == "￾"]


def image(s):
    return bytes(CHAR2BYTE.get(ch, 0x3F) for ch in s)


def text(bs):
    return "".join(_DEC[b] if _DEC[b] != "￾" else "�" for b in bytes(bs))


def encodable(s):
    return all(ch in CHAR2BYTE for ch in s)
