"""Reference EO string 'encryption': a 2x256 substitution table indexed by (flip, byte) plus
reversal.  flip alternates along the string, starting with (length odd)."""


def _table():
    t = [[0] * 256, [0] * 256]
    for c in range(256):
        for flip in (0, 1):
            if 0x22 <= c <= 0x7E:
                if not flip:
                    v = 0x9F - c
                elif c < 0x50:
                    v = 0x71 - c
                else:
                    v = 0xCD - c
            else:
                v = c
            t[flip][c] = v
    return t


TABLE = _table()


def invert(bs):
    n = len(bs)
    return bytes(TABLE[(n + i) % 2][b] for i, b in enumerate(bs))


def encode(bs):
    return invert(bytes(bs))[::-1]


def decode(bs):
    return invert(bytes(bs)[::-1])
