"""Reference interpreter of the protocol XML (DESIGN section 4): serialization, deserialization,
validity, fixed sizes and boundedness computed from the spec AST with the reference reader/writer
underneath.  Shares no code with the repository's generator."""
from vf.gen.spec import packet_name, snake_to_pascal
from vf.ref import numbers

INT_KINDS = ("byte", "char", "short", "three", "int")


class Invalid(Exception):
    """The object violates its declaration: the real serializer must raise SerializationError/ValueError."""

    def __init__(self, why, kind="serialization"):
        super().__init__(why)
        self.kind = kind  # 'serialization' (SerializationError) or 'range' (writer ValueError)


class Unsupported(Exception):
    """The reference has no defined semantics for this (spec, value) pair - case is out of domain."""


class OracleBudget(Exception):
    """The reference itself would need too many element reads (hostile length) - case skipped."""


class Obj:
    """Reference-side object value: class path + field dict (+ byte_size after deserialization)."""
    __slots__ = ("cls", "fields", "byte_size")

    def __init__(self, cls, fields, byte_size=0):
        self.cls = tuple(cls)
        self.fields = fields
        self.byte_size = byte_size

    def __repr__(self):
        return "%s(%s)" % (".".join(self.cls), ", ".join("%s=%r" % kv for kv in self.fields.items()))

    def __eq__(self, o):
        return isinstance(o, Obj) and self.cls == o.cls and self.fields == o.fields

    def to_json(self):
        def j(v):
            if isinstance(v, Obj):
                return v.to_json()
            if isinstance(v, (list, tuple)):
                return [j(x) for x in v]
            if isinstance(v, (bytes, bytearray)):
                return "hex:" + bytes(v).hex()
            return v
        return {"__class__": ".".join(self.cls), **{k: j(v) for k, v in self.fields.items()}}


class TypeInfo:
    __slots__ = ("kind", "wire", "decl", "name")

    def __init__(self, kind, wire=None, decl=None, name=None):
        self.kind, self.wire, self.decl, self.name = kind, wire, decl, name


class Interp:
    def __init__(self, spec):
        self.spec = spec
        self.types = spec.types()
        self.bodies = {}
        self.paths = {}
        for name, decl, path in spec.classes():
            self.bodies[name] = decl.body
            self.paths[name] = path
        self._fixed = {}
        self._bounded = {}

    # ------------------------------------------------------------ types
    def resolve(self, tstr):
        base, _, under = tstr.partition(":")
        if base in INT_KINDS:
            return TypeInfo("int", base, name=base)
        if base == "bool":
            return TypeInfo("bool", under or "char", name="bool")
        if base == "string":
            return TypeInfo("str", name="string")
        if base == "encoded_string":
            return TypeInfo("estr", name="encoded_string")
        if base == "blob":
            return TypeInfo("blob", name="blob")
        decl, _path = self.types[base]
        if hasattr(decl, "values"):
            return TypeInfo("enum", under or decl.type, decl, base)
        return TypeInfo("struct", None, decl, base)

    def enum_ordinal(self, decl, member):
        for v in decl.values:
            if v[0] == member:
                return v[1]
        raise KeyError(member)

    def fixed_size(self, tstr, length=None):
        t = self.resolve(tstr)
        if t.kind in ("int", "bool", "enum"):
            return numbers.WIDTH[t.wire]
        if t.kind in ("str", "estr"):
            return length if isinstance(length, int) else None
        if t.kind == "blob":
            return None
        return self.struct_fixed_size(t.decl)

    def struct_fixed_size(self, decl):
        if decl.name in self._fixed:
            return self._fixed[decl.name]
        self._fixed[decl.name] = None  # guards recursion
        total = 0
        for ins in decl.body:
            k = ins.kind
            if k == "field":
                s = None if ins.optional else self.fixed_size(ins.type, ins.length)
            elif k == "array":
                es = self.fixed_size(ins.type)
                s = ins.length * es if isinstance(ins.length, int) and es is not None and not ins.optional and not ins.delimited else None
            elif k == "dummy":
                s = self.fixed_size(ins.type)
            elif k == "length":
                s = 0  # a length field is always followed by a variable-size item
            else:  # switch, chunked (break only occurs inside chunked)
                s = None
            if s is None:
                total = None
                break
            total += s
        self._fixed[decl.name] = total
        return total

    def bounded(self, tstr, length=None):
        t = self.resolve(tstr)
        if t.kind in ("int", "bool", "enum"):
            return True
        if t.kind in ("str", "estr"):
            return length is not None
        if t.kind == "blob":
            return False
        return self.struct_bounded(t.decl)

    def struct_bounded(self, decl):
        if decl.name in self._bounded:
            return self._bounded[decl.name]
        self._bounded[decl.name] = True
        state = [True]

        def visit(body):
            for ins in body:
                k = ins.kind
                if not state[0]:
                    # only a break closes an open unbounded item
                    state[0] = k == "break"
                elif k == "field":
                    state[0] = self.bounded(ins.type, ins.length)
                elif k == "array":
                    state[0] = self.bounded(ins.type) and ins.length is not None
                elif k == "dummy":
                    state[0] = self.bounded(ins.type)
                if k == "chunked":
                    visit(ins.body)
                elif k == "switch":
                    for c in ins.cases:
                        visit(c.body)
        visit(decl.body)
        self._bounded[decl.name] = state[0]
        return state[0]

    # ------------------------------------------------------------ class paths
    @staticmethod
    def case_class_name(field, case):
        return snake_to_pascal(field) + "Data" + ("Default" if case.default else str(case.value))

    def body_of(self, cls):
        """(body, statically_chunked, inherited_optional) for a class path like ('Foo',) or ('Foo','KDataBar')."""
        body = self.bodies[cls[0]]
        chunked = False
        inherited = False
        for part in cls[1:]:
            found = self._find_case(body, part, chunked, False)
            if found is None:
                raise KeyError(cls)
            body, chunked, inherited = found
        return body, chunked, inherited

    def _find_case(self, body, part, chunked, opt):
        for ins in body:
            if ins.kind in ("field", "array", "length") and ins.optional:
                opt = True
            elif ins.kind == "break":
                opt = False
            elif ins.kind == "chunked":
                r = self._find_case(ins.body, part, True, opt)
                if r is not None:
                    return r
            elif ins.kind == "switch":
                for c in ins.cases:
                    if self.case_class_name(ins.field, c) == part:
                        return c.body, chunked, opt
        return None

    # ------------------------------------------------------------ serialization
    def literal(self, t, text):
        if t.kind == "int":
            return int(text)
        if t.kind == "bool":
            return text == "true"
        if t.kind in ("str", "estr"):
            return text
        raise Unsupported("literal of type " + t.kind)

    def serialize(self, obj, w):
        body, chunked, _inh = self.body_of(obj.cls)
        old = w.sanitize
        st = {"missing": False, "start": len(w)}
        try:
            self._ser_body(body, obj, w, st, chunked, {})
        finally:
            w.sanitize = old

    def _write_basic(self, t, v, w, length, padded):
        if t.kind == "int":
            self._write_int(t.wire, v, w)
        elif t.kind == "bool":
            self._write_int(t.wire, 1 if v else 0, w)
        elif t.kind == "enum":
            self._write_int(t.wire, int(v), w)
        elif t.kind in ("str", "estr"):
            try:
                if length is None:
                    (w.add_string if t.kind == "str" else w.add_encoded_string)(v)
                else:
                    (w.add_fixed_string if t.kind == "str" else w.add_fixed_encoded_string)(v, length, padded)
            except ValueError as e:
                raise Invalid(str(e), "range")
        elif t.kind == "blob":
            w.add_bytes(v)
        elif t.kind == "struct":
            if not isinstance(v, Obj) or v.cls != (t.name,):
                raise Unsupported("struct value of the wrong class")
            self.serialize(v, w)

    @staticmethod
    def _write_int(wire, v, w):
        if v < 0:
            raise Unsupported("negative integer")
        try:
            getattr(w, "add_" + wire)(v)
        except ValueError as e:
            raise Invalid(str(e), "range")

    def max_len_of(self, lens_decl):
        t = self.resolve(lens_decl.type)
        return (255 if t.wire == "byte" else numbers.LIMIT[t.wire] - 1) + lens_decl.offset

    def _ser_body(self, body, obj, w, st, chunked, lens):
        for ins in body:
            k = ins.kind
            if k == "field":
                t = self.resolve(ins.type)
                if ins.name is None or ins.value is not None:
                    v = self.literal(t, ins.value)
                    length = ins.length
                    if isinstance(length, str):
                        if ins.name is None:
                            raise Unsupported("unnamed field with a length reference")
                        length = len(v)
                    self._write_basic(t, v, w, length, ins.padded)
                    if ins.name is not None and isinstance(ins.length, str):
                        lens[ins.length]["value"] = len(v)
                    continue
                v = obj.fields[ins.name]
                if ins.optional:
                    if v is None:
                        st["missing"] = True
                    if st["missing"]:
                        continue
                elif v is None:
                    raise Invalid("%s must be provided" % ins.name)
                length = ins.length
                if isinstance(length, int):
                    if (len(v) > length) if ins.padded else (len(v) != length):
                        raise Invalid("length of %s" % ins.name)
                elif isinstance(length, str):
                    if len(v) > self.max_len_of(lens[length]["decl"]):
                        raise Invalid("length of %s exceeds its length field" % ins.name)
                    length = len(v)
                self._write_basic(t, v, w, length, ins.padded)
            elif k == "length":
                # the value comes from the item that references it (the constructor derives it)
                lens[ins.name] = {"decl": ins}
                ref_v = self._referenced_value(ins.name, obj)
                if ref_v is None:
                    # the item that refers to this length is optional and absent: the constructor derives a length
                    # of 0 for it (a required item left None never gets this far - the constructor refuses it)
                    if not self._referrer_optional(ins.name, obj):
                        raise Unsupported("length of an absent value")
                    ref_v = ()
                if ins.optional and st["missing"]:
                    continue
                n = len(ref_v) - ins.offset
                if n < 0:
                    raise Unsupported("length below the offset")
                t = self.resolve(ins.type)
                self._write_int(t.wire, n, w)
            elif k == "array":
                v = obj.fields[ins.name]
                if ins.optional:
                    if v is None:
                        st["missing"] = True
                    if st["missing"]:
                        continue
                elif v is None:
                    raise Invalid("%s must be provided" % ins.name)
                if isinstance(ins.length, int):
                    if len(v) != ins.length:
                        raise Invalid("length of %s" % ins.name)
                elif isinstance(ins.length, str):
                    if len(v) > self.max_len_of(lens[ins.length]["decl"]):
                        raise Invalid("length of %s exceeds its length field" % ins.name)
                t = self.resolve(ins.type)
                for i, el in enumerate(v):
                    if ins.delimited and not ins.trailing and i > 0:
                        w.add_byte(0xFF)
                    if el is None:
                        raise Unsupported("None array element")
                    self._write_basic(t, el, w, None, False)
                    if ins.delimited and ins.trailing:
                        w.add_byte(0xFF)
            elif k == "dummy":
                if len(w) == st["start"]:
                    t = self.resolve(ins.type)
                    self._write_basic(t, self.literal(t, ins.value), w, None, False)
            elif k == "switch":
                fv = self.switch_value(ins, obj)
                cd = obj.fields.get(ins.field + "_data")
                case = self.select_case(ins, fv, obj.cls)
                if case is None:
                    continue
                if not case.body:
                    if cd is not None:
                        raise Invalid("%s_data must be None" % ins.field)
                else:
                    want = obj.cls + (self.case_class_name(ins.field, case),)
                    if not isinstance(cd, Obj) or cd.cls != want:
                        raise Invalid("%s_data must be %s" % (ins.field, ".".join(want)))
                    self.serialize(cd, w)
            elif k == "chunked":
                if not chunked:
                    w.sanitize = True
                    self._ser_body(ins.body, obj, w, st, True, lens)
                    w.sanitize = False
                else:
                    self._ser_body(ins.body, obj, w, st, True, lens)
            elif k == "break":
                # optional fields are per chunk: a break starts a new chunk with its own optional tail
                st["missing"] = False
                w.add_byte(0xFF)

    def _referrer_optional(self, length_name, obj):
        body, _c, _i = self.body_of(obj.cls)
        found = []

        def visit(b):
            for ins in b:
                if ins.kind in ("field", "array") and ins.length == length_name and ins.name is not None:
                    found.append(ins)
                elif ins.kind == "chunked":
                    visit(ins.body)
        visit(body)
        return bool(found) and bool(found[0].optional)

    def _referenced_value(self, length_name, obj):
        body, _c, _i = self.body_of(obj.cls)
        found = []

        def visit(b):
            for ins in b:
                if ins.kind in ("field", "array") and ins.length == length_name and ins.name is not None:
                    found.append(ins)
                elif ins.kind == "chunked":
                    visit(ins.body)
        visit(body)
        if not found:
            raise Unsupported("unreferenced length field")
        ins = found[0]
        if ins.kind == "field" and ins.value is not None:
            return ins.value
        return obj.fields[ins.name]

    def switch_field_type(self, cls, field):
        body, _c, _i = self.body_of(cls)
        res = []

        def visit(b):
            for ins in b:
                if ins.kind in ("field", "length") and ins.name == field:
                    res.append(ins)
                elif ins.kind == "chunked":
                    visit(ins.body)
        visit(body)
        return self.resolve(res[0].type)

    def switch_value(self, sw, obj):
        """The value a switch of obj looks at: the field's, or for a switch on a <length> the count itself
        (the length of the item that refers to it, before the offset is taken off)."""
        if sw.field in obj.fields:
            return obj.fields[sw.field]
        ref = self._referenced_value(sw.field, obj)
        return None if ref is None else len(ref)

    def select_case(self, sw, fv, cls):
        """First case whose value equals the field value, else the default case, else None."""
        t = self.switch_field_type(cls, sw.field)
        default = None
        for c in sw.cases:
            if c.default:
                if default is None:
                    default = c
                continue
            cv = str(c.value)
            if t.kind == "enum" and not cv.isdigit():
                ordv = self.enum_ordinal(t.decl, cv)
            else:
                ordv = int(cv)
            if fv is not None and int(fv) == ordv:
                return c
        return default

    # ------------------------------------------------------------ deserialization
    def deserialize(self, cls, r, budget=None):
        if budget is None:
            budget = [200000]
        body, chunked, _inh = self.body_of(tuple(cls))
        old = r.chunked
        start = r.pos
        try:
            fields = {}
            self._de_body(body, tuple(cls), fields, r, start, chunked, {}, budget)
            return Obj(cls, fields, r.pos - start)
        finally:
            r.chunked = old

    def _read_basic(self, t, r, length, padded, budget):
        if t.kind == "int":
            return getattr(r, "get_" + t.wire)()
        if t.kind == "bool":
            return getattr(r, "get_" + t.wire)() != 0
        if t.kind == "enum":
            return getattr(r, "get_" + t.wire)()
        if t.kind == "str":
            return r.get_string() if length is None else r.get_fixed_string(length, padded)
        if t.kind == "estr":
            return r.get_encoded_string() if length is None else r.get_fixed_encoded_string(length, padded)
        if t.kind == "blob":
            return bytes(r.get_bytes(r.remaining))
        return self.deserialize((t.name,), r, budget)

    def _de_body(self, body, cls, fields, r, start, chunked, lens, budget):
        for ins in body:
            k = ins.kind
            if k == "field":
                t = self.resolve(ins.type)
                if ins.optional:
                    fields[ins.name] = None
                    if not r.remaining > 0:
                        continue
                length = ins.length
                if isinstance(length, str):
                    length = lens[length]
                    if length is None:
                        raise Unsupported("length field absent")
                v = self._read_basic(t, r, length, ins.padded, budget)
                if ins.name is not None:
                    fields[ins.name] = self.literal(t, ins.value) if ins.value is not None else v
            elif k == "length":
                t = self.resolve(ins.type)
                lens[ins.name] = None
                if ins.optional and not r.remaining > 0:
                    continue
                lens[ins.name] = getattr(r, "get_" + t.wire)() + ins.offset
            elif k == "array":
                if ins.optional:
                    fields[ins.name] = None
                    if not r.remaining > 0:
                        continue
                t = self.resolve(ins.type)
                n = None
                if isinstance(ins.length, int):
                    n = ins.length
                elif isinstance(ins.length, str):
                    n = lens[ins.length]
                    if n is None:
                        raise Unsupported("length field absent")
                elif not ins.delimited:
                    es = self.fixed_size(ins.type)
                    if es is not None:
                        if es == 0:
                            raise Unsupported("zero-size element")
                        n = r.remaining // es
                out = []
                if n is None:
                    while r.remaining > 0:
                        budget[0] -= 1
                        if budget[0] < 0:
                            raise OracleBudget()
                        before = (r.pos, r.chunked, r.chunk_start)
                        out.append(self._read_basic(t, r, None, False, budget))
                        if ins.delimited:
                            r.next_chunk()
                        if (r.pos, r.chunked, r.chunk_start) == before:
                            raise Unsupported("zero-progress element in an unbounded array")
                else:
                    if n > budget[0]:
                        raise OracleBudget()
                    for i in range(n):
                        budget[0] -= 1
                        out.append(self._read_basic(t, r, None, False, budget))
                        if ins.delimited and (ins.trailing or i + 1 < n):
                            r.next_chunk()
                fields[ins.name] = out
            elif k == "dummy":
                if r.pos == start:
                    self._read_basic(self.resolve(ins.type), r, None, False, budget)
            elif k == "switch":
                fields[ins.field + "_data"] = None
                case = self.select_case(ins, lens[ins.field] if ins.field in lens else fields[ins.field], cls)
                if case is not None and case.body:
                    fields[ins.field + "_data"] = self.deserialize(cls + (self.case_class_name(ins.field, case),), r, budget)
            elif k == "chunked":
                if not chunked:
                    r.chunked = True
                    self._de_body(ins.body, cls, fields, r, start, True, lens, budget)
                    r.chunked = False
                else:
                    self._de_body(ins.body, cls, fields, r, start, True, lens, budget)
            elif k == "break":
                r.next_chunk()

    # ------------------------------------------------------------ helpers
    def class_name_of(self, decl, path):
        return decl.name if hasattr(decl, "name") else packet_name(decl, path)
