"""Independent model of the protocol grammar's well-formedness rules (C17's catalogue and the
certificate for SpecGen output).  check(spec) -> list of (rule, where) violations; empty = accepted.
Written from the rule statements, sharing nothing with the repository's validation code."""
import keyword

from vf.ref import numbers

INT_KINDS = ("byte", "char", "short", "three", "int")
BASIC = INT_KINDS + ("bool", "string", "encoded_string")


class G:
    def __init__(self, spec):
        self.spec = spec
        self.errors = []
        self.types = {}
        self.enum_ok = {}

    def err(self, rule, where):
        self.errors.append((rule, where))

    # ---- type level
    def index(self):
        for path, f in self.spec.files.items():
            for d in list(f.enums) + list(f.structs):
                if d.name is None:
                    self.err("missing-name", path)
                    continue
                if d.name in self.types:
                    self.err("redefined-type", "%s in %s" % (d.name, path or "<root>"))
                else:
                    self.types[d.name] = (d, path)

    def resolve(self, tstr, where, length=None, _stack=()):
        """-> (kind, wire, decl) or None after recording an error."""
        if tstr is None:
            self.err("missing-type", where)
            return None
        parts = tstr.split(":")
        if len(parts) > 2:
            self.err("malformed-underlying-type", where)
            return None
        base = parts[0]
        under = parts[1] if len(parts) == 2 else None
        if under is not None:
            if under == base:
                self.err("malformed-underlying-type", where)
                return None
            if under not in INT_KINDS:
                if under in BASIC or under == "blob" or under in self.types:
                    self.err("malformed-underlying-type", where)
                else:
                    self.err("unknown-type", where)
                return None
        if length is not None and base not in ("string", "encoded_string"):
            self.err("length-on-non-string", where)
            return None
        if base in INT_KINDS:
            if under:
                self.err("malformed-underlying-type", where)
                return None
            return ("int", base, None)
        if base == "bool":
            return ("bool", under or "char", None)
        if base in ("string", "encoded_string"):
            if under:
                self.err("malformed-underlying-type", where)
                return None
            return ("str", None, None)
        if base == "blob":
            if under:
                self.err("malformed-underlying-type", where)
                return None
            return ("blob", None, None)
        if base not in self.types:
            self.err("unknown-type", where + " -> " + base)
            return None
        decl, _p = self.types[base]
        if hasattr(decl, "values"):
            w = under
            if w is None:
                w = self.enum_wire(decl)
                if w is None:
                    return None
            else:
                if self.enum_wire(decl, quiet=True) is None and not self.enum_values_ok(decl):
                    return None
            if not self.enum_values_ok(decl):
                return None
            return ("enum", w, decl)
        if under:
            self.err("malformed-underlying-type", where)
            return None
        if base in _stack:
            self.err("recursive-struct", where)
            return None
        return ("struct", None, decl)

    def enum_wire(self, decl, quiet=False):
        t = decl.type
        if t is None:
            if not quiet:
                self.err("malformed-underlying-type", "enum %s has no type" % decl.name)
            return None
        if t == decl.name or t not in INT_KINDS:
            if not quiet:
                if t in BASIC or t == "blob" or t in self.types or t == decl.name or ":" in t:
                    self.err("malformed-underlying-type", "enum %s type %s" % (decl.name, t))
                else:
                    self.err("unknown-type", "enum %s type %s" % (decl.name, t))
            return None
        return t

    def enum_values_ok(self, decl):
        if decl.name in self.enum_ok:
            return self.enum_ok[decl.name]
        ok = True
        ords, names = set(), set()
        for v in decl.values:
            name, o = v[0], v[1]
            if name is None:
                self.err("malformed-enum-value", "%s: value without name" % decl.name)
                ok = False
                continue
            try:
                o = int(str(o).strip()) if not isinstance(o, int) else o
            except ValueError:
                self.err("malformed-enum-value", "%s.%s ordinal %r" % (decl.name, name, v[1]))
                ok = False
                continue
            if o in ords:
                self.err("malformed-enum-value", "%s.%s duplicate ordinal" % (decl.name, name))
                ok = False
            ords.add(o)
            pn = "None_" if name == "None" else name
            if pn in names:
                self.err("malformed-enum-value", "%s.%s duplicate name" % (decl.name, name))
                ok = False
            names.add(pn)
        self.enum_ok[decl.name] = ok
        return ok

    # ---- struct facts
    def bounded(self, tstr, length, _stack=()):
        r = self.resolve(tstr, "bounded", None if tstr.split(":")[0] not in ("string", "encoded_string") else length, _stack)
        if r is None:
            return True
        k = r[0]
        if k in ("int", "bool", "enum"):
            return True
        if k == "str":
            return length is not None
        if k == "blob":
            return False
        return self.struct_bounded(r[2], _stack + (tstr,))

    def struct_bounded(self, decl, _stack=()):
        state = [True]

        def visit(body):
            for ins in body:
                k = ins.kind
                if not state[0]:
                    state[0] = k == "break"
                elif k == "field":
                    state[0] = self.bounded(ins.type, ins.length, _stack) if ins.type else True
                elif k == "array":
                    state[0] = (self.bounded(ins.type, None, _stack) if ins.type else True) and ins.length is not None
                elif k == "dummy":
                    state[0] = self.bounded(ins.type, None, _stack) if ins.type else True
                if k == "chunked":
                    visit(ins.body)
                elif k == "switch":
                    for c in ins.cases:
                        visit(c.body)
        mark = len(self.errors)
        visit(decl.body)
        del self.errors[mark:]  # errors inside the other struct are reported where it is declared
        return state[0]

    # ---- bodies
    def literal_ok(self, kind, text):
        if text is None:
            return False
        if kind == "int":
            return text.isdigit()
        if kind == "bool":
            return text in ("true", "false")
        return True

    def check_body(self, body, where, chunked=False, opt=False, scope=None, lens=None, state=None):
        scope = {} if scope is None else scope
        lens = {} if lens is None else lens
        st = state if state is not None else {"opt": opt, "dummy": False, "switched": set()}
        for n, ins in enumerate(body):
            w = "%s[%d:%s]" % (where, n, ins.kind)
            if st["dummy"]:
                self.err("after-dummy", w)
                return st
            k = ins.kind
            if k in ("field", "array", "length"):
                name = ins.name
                optional = ins.optional
                if k != "field" and name is None:
                    self.err("missing-name", w)
                    continue
                if st["opt"] and not optional:
                    self.err("required-after-optional", w)
                    continue
                if k == "field":
                    length = ins.length
                    r = self.resolve(ins.type, w, length)
                    if r is None:
                        continue
                    if name is None:
                        if ins.value is None:
                            self.err("unnamed-without-value", w)
                            continue
                        if optional:
                            self.err("unnamed-optional", w)
                            continue
                    if ins.value is not None:
                        if r[0] not in ("int", "bool", "str"):
                            self.err("hardcoded-non-basic", w)
                            continue
                        if not self.literal_ok(r[0], ins.value):
                            self.err("hardcoded-wrong-type", w)
                            continue
                        if r[0] == "str" and isinstance(length, int) and length != len(ins.value):
                            self.err("hardcoded-wrong-length", w)
                            continue
                    if not self.length_ref_ok(length, lens, w):
                        continue
                elif k == "array":
                    if ins.delimited and not chunked:
                        self.err("delimited-outside-chunked", w)
                        continue
                    r = self.resolve(ins.type, w)
                    if r is None:
                        continue
                    if not ins.delimited and not self.bounded(ins.type, None):
                        self.err("unbounded-array-element", w)
                        continue
                    if not self.length_ref_ok(ins.length, lens, w):
                        continue
                else:
                    r = self.resolve(ins.type, w)
                    if r is None:
                        continue
                    if r[0] != "int":
                        self.err("length-non-integer", w)
                        continue
                if name is not None:
                    if name in scope:
                        self.err("redefined-field", w + " " + name)
                        continue
                    scope[name] = (k, ins, r)
                if k == "length":
                    lens[name] = False
                elif isinstance(ins.length, str) and name is not None:
                    lens[ins.length] = True
                if optional:
                    st["opt"] = True
            elif k == "dummy":
                r = self.resolve(ins.type, w)
                if r is None:
                    continue
                if ins.value is None:
                    self.err("unnamed-without-value", w)
                    continue
                if r[0] not in ("int", "bool", "str"):
                    self.err("hardcoded-non-basic", w)
                    continue
                if not self.literal_ok(r[0], ins.value):
                    self.err("hardcoded-wrong-type", w)
                    continue
                st["dummy"] = True
            elif k == "switch":
                self.check_switch(ins, w, chunked, scope, st)
            elif k == "chunked":
                self.check_body(ins.body, w, True, scope=scope, lens=lens, state=st)
            elif k == "break":
                if not chunked:
                    self.err("break-outside-chunked", w)
                    continue
                st["opt"] = False
                st["dummy"] = False
        return st

    def length_ref_ok(self, length, lens, w):
        if length is None or isinstance(length, int):
            return True
        if str(length).isdigit():
            return True
        if length not in lens:
            self.err("bad-length-reference", w + " length=" + str(length))
            return False
        if lens[length]:
            self.err("length-referenced-twice", w + " length=" + str(length))
            return False
        return True

    def check_switch(self, sw, w, chunked, scope, st):
        if sw.field is None or sw.field not in scope:
            self.err("switch-unsuitable-field", w + " field=" + str(sw.field))
            return
        kind, ins, r = scope[sw.field]
        # a required <length> is as good a switch field as an integer field: the case is chosen by the count itself
        bad = not (kind == "field" or (kind == "length" and not ins.optional)) or r[0] not in ("int", "enum")
        opt_after, dummy_after = st["opt"], st["dummy"]
        for i, c in enumerate(sw.cases):
            cw = "%s/case%d" % (w, i)
            if c.default:
                if i == 0:
                    self.err("lone-default-case", cw)
                    return
            else:
                if kind == "array":
                    self.err("switch-unsuitable-field", cw)
                    return
                if c.value is None:
                    self.err("switch-bad-case-value", cw)
                    return
                if bad:
                    self.err("switch-unsuitable-field", cw)
                    return
                cv = str(c.value)
                if r[0] == "int":
                    if not cv.isdigit():
                        self.err("switch-bad-case-value", cw)
                        return
                else:
                    decl = r[2]
                    try:
                        o = int(cv)
                    except ValueError:
                        o = None
                    if o is not None:
                        if any(v[1] == o for v in decl.values):
                            self.err("switch-bad-case-value", cw + " ordinal has a name")
                            return
                    elif not any(v[0] == cv for v in decl.values):
                        self.err("switch-bad-case-value", cw + " unknown member " + cv)
                        return
            cst = self.check_body(c.body, cw, chunked, opt=st["opt"])
            opt_after = opt_after or cst["opt"]
            dummy_after = dummy_after or cst["dummy"]
        st["opt"], st["dummy"] = opt_after, dummy_after

    # ---- file level
    def check(self):
        self.index()
        for name, (decl, path) in list(self.types.items()):
            if hasattr(decl, "values"):
                if self.enum_wire(decl) is not None:
                    self.enum_values_ok(decl)
        fam = self.types.get("PacketFamily", (None, None))[0]
        act = self.types.get("PacketAction", (None, None))[0]
        for path, f in self.spec.files.items():
            for s in f.structs:
                self.check_body(s.body, "struct %s" % s.name)
            seen = set()
            for p in f.packets:
                w = "packet %s_%s in %s" % (p.family, p.action, path)
                if p.family is None or p.action is None:
                    self.err("packet-missing-attribute", w)
                    continue
                if (p.family, p.action) in seen:
                    self.err("duplicate-packet", w)
                    continue
                seen.add((p.family, p.action))
                if path not in ("net/client", "net/server"):
                    self.err("packet-outside-net", w)
                    continue
                if fam is None or not hasattr(fam, "values") or act is None or not hasattr(act, "values"):
                    self.err("packet-enums-missing", w)
                    continue
                if not any(v[0] == p.family for v in fam.values):
                    self.err("unknown-packet-family", w)
                    continue
                if not any(v[0] == p.action for v in act.values):
                    self.err("unknown-packet-action", w)
                    continue
                self.check_body(p.body, w)
        return self.errors


def check(spec):
    return G(spec).check()


def python_identifier_ok(name):
    return name.isidentifier() and not keyword.iskeyword(name)
