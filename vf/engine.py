"""Engine: sharding, worker processes, watchdogs, evidence, replay files, known findings.

A property module (vf/props/cNN.py) provides
    ID, LEVEL, RULE, ASSUMPTIONS (list), optional SHARD_TIMEOUT = {"quick": s, "thorough": s}
    shards(tier, seed) -> list of JSON-able shard descriptors
    run(shard, rec, tier, seed) -> None        (executed inside a worker; reports through `rec`)
    optional finalize(agg, tier, seed) -> None (master side; may add coverage keys / inconclusive)
    optional FLOORS = {counter_name: minimum}  (deciding monitors; below floor => inconclusive)

Verdicts are three-valued: exit 0 held on what was observed, exit 1 VIOLATION, exit 2 INCONCLUSIVE.
"""
import faulthandler
import hashlib
import importlib
import json
import os
import queue
import subprocess
import sys
import threading
import time
import traceback
from collections import Counter, defaultdict

ROOT = os.path.dirname(os.path.dirname(os.path.abspath(__file__)))
MAX_SAMPLES = 8
MAX_VIOLATIONS_PER_MECH = 3


def h64(obj):
    """Stable 64-bit key of a case (independent of PYTHONHASHSEED)."""
    if not isinstance(obj, (bytes, bytearray)):
        obj = repr(obj).encode("utf-8", "backslashreplace")
    return int.from_bytes(hashlib.blake2b(obj, digest_size=8).digest(), "big")


def jsonable(x, depth=0):
    if depth > 12:
        return repr(x)
    if isinstance(x, (str, int, float, bool)) or x is None:
        return x
    if isinstance(x, (bytes, bytearray, memoryview)):
        return "hex:" + bytes(x).hex()
    if isinstance(x, dict):
        return {str(k): jsonable(v, depth + 1) for k, v in x.items()}
    if isinstance(x, (list, tuple, set, frozenset)):
        return [jsonable(v, depth + 1) for v in x]
    return repr(x)


class Rec:
    """What a worker observed while running one shard."""

    def __init__(self):
        self.evals = 0
        self.keys = set()
        self.distinct_count = 0  # for enumerations whose cases are distinct by construction
        self.counters = Counter()
        self.sets = defaultdict(set)
        self.samples = []
        self.violations = []
        self._vio_per_mech = Counter()
        self.inconclusive = []
        self.info = {}

    def case(self, key=None, nontrivial=True, n=1):
        self.evals += n
        if nontrivial:
            if key is None:
                self.distinct_count += n
            elif len(self.keys) < 400000:
                self.keys.add(h64(key))
            else:
                self.counters["distinct_keys_dropped_cap"] += 1

    def count(self, name, n=1):
        self.counters[name] += n

    def seen(self, setname, item):
        s = self.sets[setname]
        if len(s) < 5000:
            s.add(item if isinstance(item, str) else json.dumps(jsonable(item)))

    def sample(self, obj, force=False):
        if len(self.samples) < MAX_SAMPLES or force:
            self.samples.append(jsonable(obj))

    def violation(self, mechanism, message, case):
        self.counters["violations_total"] += 1
        self.counters["violation:" + mechanism] += 1
        self._vio_per_mech[mechanism] += 1
        if self._vio_per_mech[mechanism] <= MAX_VIOLATIONS_PER_MECH:
            self.violations.append(
                {"mechanism": mechanism, "message": str(message)[:2000], "case": jsonable(case)}
            )

    def to_json(self):
        return {
            "evals": self.evals,
            "keys": list(self.keys),
            "distinct_count": self.distinct_count,
            "counters": dict(self.counters),
            "sets": {k: sorted(v) for k, v in self.sets.items()},
            "samples": self.samples,
            "violations": self.violations,
            "inconclusive": self.inconclusive,
            "info": self.info,
        }


def with_interpreter_options(shards, key=None, limit=4):
    """The shard list plus copies of a few of its shards (the first of every distinct value of `key`, or simply the
    first ones) that run in one-off interpreters started with other options: -O, -OO (asserts and docstrings stripped)
    -W error (every warning an exception) and -bb (mixing bytes and str is an error)."""
    picked, seen = [], set()
    for s in shards:
        if not isinstance(s, dict) or s.get("_pyflags"):
            continue
        k = s.get(key) if key else len(picked)
        k = repr(k)
        if k in seen:
            continue
        seen.add(k)
        picked.append(s)
        if len(picked) >= limit:
            break
    flags = (["-O"], ["-OO"], ["-W", "error"], ["-bb"])
    while picked and len(picked) < 4:
        picked.append(picked[len(picked) % len(picked)])
    return list(shards) + [dict(s, _pyflags=flags[i % 4]) for i, s in enumerate(picked[:4])]


# --------------------------------------------------------------------------- worker


def worker_main(prop_id):
    # keep the protocol channel private: anything the code under test prints goes nowhere
    proto = os.fdopen(os.dup(1), "w")
    devnull = open(os.devnull, "w")
    os.dup2(devnull.fileno(), 1)
    sys.stdout = devnull
    try:
        import resource

        lim = int(os.environ.get("VERIF_WORKER_MEM_GB", "4")) << 30
        resource.setrlimit(resource.RLIMIT_AS, (lim, lim))  # a runaway loop gets MemoryError, not the whole machine
    except Exception:
        pass
    mod = importlib.import_module("vf.props." + prop_id.lower())
    for line in sys.stdin:
        line = line.strip()
        if not line:
            continue
        msg = json.loads(line)
        rec = Rec()
        t0 = time.time()
        faulthandler.dump_traceback_later(msg["timeout"], exit=True)
        try:
            if isinstance(msg["shard"], dict) and msg["shard"].get("_pyflags"):
                # what this interpreter was really started with (optimisation level, warning filters)
                rec.seen("interpreter-options", "optimize=%d warnoptions=%s bytes_warning=%d" % (sys.flags.optimize, ",".join(sys.warnoptions) or "-", sys.flags.bytes_warning))
                rec.count("shards-in-an-interpreter-with-other-options")
            mod.run(msg["shard"], rec, msg["tier"], msg["seed"])
        except BaseException:
            rec.inconclusive.append("harness error in shard %r: %s" % (msg["shard"], traceback.format_exc()[-3000:]))
        faulthandler.cancel_dump_traceback_later()
        out = rec.to_json()
        out["wall_s"] = time.time() - t0
        out["shard"] = msg["shard"]
        proto.write(json.dumps(out) + "\n")
        proto.flush()


# --------------------------------------------------------------------------- master


class Agg:
    def __init__(self):
        self.evals = 0
        self.keys = set()
        self.distinct_count = 0
        self.counters = Counter()
        self.sets = defaultdict(set)
        self.samples = []
        self.violations = []
        self.inconclusive = []
        self.info = {}
        self.extra = {}
        self.shards_done = 0

    def merge(self, r):
        self.evals += r["evals"]
        self.keys.update(r["keys"])
        self.distinct_count += r["distinct_count"]
        self.counters.update(r["counters"])
        for k, v in r["sets"].items():
            self.sets[k].update(v)
        for s in r["samples"]:
            if len(self.samples) < MAX_SAMPLES:
                self.samples.append(s)
        for v in r["violations"]:
            v["shard"] = r["shard"]
            self.violations.append(v)
        self.inconclusive.extend(r["inconclusive"])
        self.info.update(r.get("info", {}))
        self.shards_done += 1

    @property
    def distinct(self):
        return len(self.keys) + self.distinct_count


def _worker_thread(prop_id, tier, seed, q, agg, lock, timeout, stderr_dir, idx):
    env = dict(os.environ)
    env["PYTHONDONTWRITEBYTECODE"] = "1"
    errpath = os.path.join(stderr_dir, "worker%d.err" % idx)
    errf = open(errpath, "w")
    proc = None

    def start():
        return subprocess.Popen(
            [sys.executable, "-B", "-m", "vf.engine", "--worker", prop_id],
            stdin=subprocess.PIPE, stdout=subprocess.PIPE, stderr=errf, text=True, cwd=ROOT, env=env,
        )

    while True:
        try:
            shard = q.get_nowait()
        except queue.Empty:
            break
        flags = shard.get("_pyflags") if isinstance(shard, dict) else None
        if flags:
            # a shard that asks for other interpreter flags (-O: asserts stripped, __debug__ False) runs in a
            # process of its own
            one = subprocess.Popen([sys.executable, "-B"] + list(flags) + ["-m", "vf.engine", "--worker", prop_id],
                                   stdin=subprocess.PIPE, stdout=subprocess.PIPE, stderr=errf, text=True, cwd=ROOT, env=env)
            try:
                out, _ = one.communicate(json.dumps({"shard": shard, "tier": tier, "seed": seed, "timeout": timeout}) + "\n", timeout=timeout + 60)
                line = out.splitlines()[0] if out.strip() else ""
            except Exception:
                one.kill()
                line = ""
            if not line:
                with lock:
                    agg.inconclusive.append("worker with flags %r died on shard %r" % (flags, shard))
                continue
            with lock:
                agg.merge(json.loads(line))
            continue
        if proc is None or proc.poll() is not None:
            proc = start()
        try:
            proc.stdin.write(json.dumps({"shard": shard, "tier": tier, "seed": seed, "timeout": timeout}) + "\n")
            proc.stdin.flush()
            line = proc.stdout.readline()
        except Exception:
            line = ""
        if not line:
            # worker died (watchdog, crash, OOM): inconclusive, never a violation
            try:
                proc.kill()
            except Exception:
                pass
            tail = ""
            try:
                errf.flush()
                tail = open(errpath).read()[-1500:]
            except Exception:
                pass
            with lock:
                agg.inconclusive.append("worker died or watchdog fired on shard %r: %s" % (shard, tail))
            proc = None
            continue
        r = json.loads(line)
        with lock:
            agg.merge(r)
    if proc is not None:
        try:
            proc.stdin.close()
            proc.wait(timeout=10)
        except Exception:
            proc.kill()
    errf.close()


def load_known():
    p = os.path.join(ROOT, "known_findings.json")
    if not os.path.exists(p):
        return []
    return json.load(open(p))


def main(argv):
    if argv and argv[0] == "--worker":
        worker_main(argv[1])
        return 0
    if not argv:
        print("usage: check <Cnn> [quick|thorough] [--replay PATH]")
        return 3
    prop_id = argv[0].upper()
    tier = os.environ.get("VERIF_TIER", "quick")
    replay = None
    i = 1
    while i < len(argv):
        if argv[i] in ("quick", "thorough"):
            tier = argv[i]
        elif argv[i] == "--replay":
            replay = argv[i + 1]
            i += 1
        i += 1
    if tier not in ("quick", "thorough"):
        tier = "quick"
    seed = int(os.environ.get("VERIF_SEED", "0") or 0)
    jobs = int(os.environ.get("VERIF_JOBS", "16") or 16)
    mod = importlib.import_module("vf.props." + prop_id.lower())
    t0 = time.time()

    only_shard = None
    if replay:
        rp = json.load(open(replay))
        seed = rp.get("seed", seed)
        tier = rp.get("tier", tier)
        only_shard = rp["shard"]

    shards = [only_shard] if only_shard is not None else mod.shards(tier, seed)
    timeout = getattr(mod, "SHARD_TIMEOUT", {}).get(tier, 600 if tier == "quick" else 3600)
    q = queue.Queue()
    for s in shards:
        q.put(s)
    agg = Agg()
    lock = threading.Lock()
    import tempfile

    stderr_dir = tempfile.mkdtemp(prefix="vf-err-")
    threads = []
    for k in range(max(1, min(jobs, len(shards)))):
        t = threading.Thread(target=_worker_thread, args=(prop_id, tier, seed, q, agg, lock, timeout, stderr_dir, k))
        t.start()
        threads.append(t)
    for t in threads:
        t.join()
    import shutil

    shutil.rmtree(stderr_dir, ignore_errors=True)

    if hasattr(mod, "finalize"):
        try:
            mod.finalize(agg, tier, seed)
        except Exception:
            agg.inconclusive.append("finalize failed: " + traceback.format_exc()[-1500:])
    for name, floor in getattr(mod, "FLOORS", {}).items():
        if isinstance(floor, dict):
            floor = floor.get(tier, 1)
        if agg.counters.get(name, 0) < floor and only_shard is None:
            agg.inconclusive.append("deciding monitor %r evaluated %d times (< floor %d)" % (name, agg.counters.get(name, 0), floor))
    if agg.shards_done < len(shards) and not agg.inconclusive:
        agg.inconclusive.append("only %d of %d shards completed" % (agg.shards_done, len(shards)))

    # ---- classify violations against the committed known-findings file
    known = [k for k in load_known() if k.get("property") == prop_id]
    known_mech = {k["mechanism"]: k for k in known if k.get("status") == "known"}
    new_violations, known_seen = [], {}
    for v in agg.violations:
        if v["mechanism"] in known_mech:
            known_seen.setdefault(v["mechanism"], v)
        else:
            new_violations.append(v)
    # counters tell us about mechanisms whose witnesses were capped away
    for name, n in agg.counters.items():
        if name.startswith("violation:"):
            mech = name[len("violation:"):]
            if mech in known_mech:
                known_seen.setdefault(mech, None)

    wall = time.time() - t0
    coverage = {
        "evaluations": agg.evals,
        "distinct_nontrivial": agg.distinct,
        "rule": mod.RULE,
        "samples": agg.samples,
        "monitor_evaluations": {k: v for k, v in sorted(agg.counters.items()) if not k.startswith("violation")},
        "observed": {k: sorted(v)[:400] for k, v in sorted(agg.sets.items())},
        "observed_sizes": {k: len(v) for k, v in sorted(agg.sets.items())},
        "shards": len(shards),
        "shards_completed": agg.shards_done,
        "known_findings_seen": sorted(known_seen),
        "inconclusive_reasons": agg.inconclusive[:10],
    }
    coverage.update(agg.info)
    coverage.update(agg.extra)
    ev = {
        "property_id": prop_id,
        "tier": tier,
        "seed": seed,
        "level": mod.LEVEL,
        "coverage": coverage,
        "assumptions": list(getattr(mod, "ASSUMPTIONS", [])),
        "wall_s": round(wall, 3),
        "violations": len(new_violations),
    }
    if replay is None and not os.environ.get("VERIF_NO_EVIDENCE"):
        os.makedirs(os.path.join(ROOT, "evidence"), exist_ok=True)
        tmp = os.path.join(ROOT, "evidence", prop_id + ".json.tmp")
        with open(tmp, "w") as f:
            json.dump(ev, f, indent=1, sort_keys=True)
        os.replace(tmp, os.path.join(ROOT, "evidence", prop_id + ".json"))

    for mech in sorted(known_seen):
        print("KNOWN-FINDING: property=%s %s [%s]" % (prop_id, known_mech[mech]["what_fails"], mech))
    rc = 0
    if new_violations:
        os.makedirs(os.path.join(ROOT, "replays"), exist_ok=True)
        by_mech = {}
        for v in new_violations:
            by_mech.setdefault(v["mechanism"], v)
        for n, (mech, v) in enumerate(sorted(by_mech.items())):
            path = os.path.join(ROOT, "replays", "%s-%s-s%d-%d.json" % (prop_id, tier, seed, n))
            with open(path, "w") as f:
                json.dump({"property": prop_id, "tier": tier, "seed": seed, "shard": v["shard"], "mechanism": mech,
                           "message": v["message"], "case": v["case"],
                           "occurrences": agg.counters.get("violation:" + mech, 1)}, f, indent=1)
            print("VIOLATION property=%s replay=%s" % (prop_id, path))
            print("  mechanism: %s" % mech)
            print("  %s" % v["message"][:600].replace("\n", "\n  "))
        rc = 1
    elif agg.inconclusive:
        for r in agg.inconclusive[:5]:
            print("INCONCLUSIVE property=%s reason=%s" % (prop_id, r[:1500]))
        rc = 2
    print("%s %s seed=%d: %s; evaluations=%d distinct_nontrivial=%d shards=%d/%d wall=%.1fs" % (
        prop_id, tier, seed, {0: "HELD on everything observed", 1: "VIOLATED", 2: "INCONCLUSIVE"}[rc],
        agg.evals, agg.distinct, agg.shards_done, len(shards), wall))
    return rc


if __name__ == "__main__":
    sys.exit(main(sys.argv[1:]))
