/* C11 oracle: the game client's arithmetic for the server verification hash.
 * 32-bit int, truncating (C99) remainder.  Built at check time with
 *   clang -O1 -fsanitize=undefined,integer -fno-sanitize-recover=all
 * so the oracle itself is known to be free of overflow / UB on every challenge it is asked for.
 * usage: hash_ref LO HI   -> writes (HI-LO) little-endian int32 values to stdout */
#include <stdint.h>
#include <stdio.h>
#include <stdlib.h>

static int32_t client_hash(int32_t challenge) {
    challenge += 1;
    return 110905 + (challenge % 9 + 1) * ((11092004 - challenge) % ((challenge % 11 + 1) * 119)) * 119
           + challenge % 2004;
}

int main(int argc, char **argv) {
    if (argc != 3) return 2;
    long lo = atol(argv[1]), hi = atol(argv[2]);
    enum { N = 65536 };
    static int32_t buf[N];
    long n = 0;
    for (long c = lo; c < hi; c++) {
        buf[n++] = client_hash((int32_t)c);
        if (n == N) { if (fwrite(buf, 4, n, stdout) != (size_t)n) return 3; n = 0; }
    }
    if (n && fwrite(buf, 4, n, stdout) != (size_t)n) return 3;
    return 0;
}
